#!/usr/bin/env python3
"""Generates /verif/MANIFEST.json from the tables below (single source of truth for the interface)."""
import json
import os
import sys

VERIF = os.path.dirname(os.path.abspath(__file__))

NOTE = ("Trusted base: nightly rustc's HIR/MIR construction and Instance::try_resolve; the ylint fact extractor; the CFG "
        "dominance / edge-necessity / path-formula / term-reconstruction code in /verif/ylib; the frozen instance tables in "
        "/verif/rules (each entry confirmed by reading). Analysed configuration: the workspace build (yrs[weak] + yffi), dev profile, "
        "-Zmir-opt-level=0; thorough adds yrs[weak,sync] and yrs without features. Callees outside the analysed crates are leaves.")

CHECKS = {
    "C01": ("R-ORDER/R-PROV dominance + provenance (dedupe before integrate), R-GUARD edge-necessity (idempotent delete), R-PURE call-graph reachability (no nondeterminism in the integration cone), R-PROV operand provenance of the conflict tie-break",
            "Decides four structural necessary conditions of schedule independence (C01.a-d) on every path of the anchored functions; "
            "does NOT decide convergence itself (YATA's order is value-level over all histories). A green check means no re-delivered block "
            "can be integrated twice, deletion is idempotent, integration reads no local identity/clock/RNG, and the only ordering comparison "
            "of the conflict scan is on replicated client ids.", "4 C01"),
    "C02": ("R-PROV contradiction rule on the stash frontier (skip-aware vs skip-unaware clock sources, followed through closures), R-PROV stash carried in every write of Store.pending/pending_ds, exact path formula of has_missing_updates, R-SIB v1/v2",
            "Decides that the clocks stored in / compared with PendingUpdate.missing are consistent with the skip-aware dependency test, that "
            "no write of the stash drops the remainder, that full-state export merges both stashes, and the exact boolean formula of "
            "has_missing_updates. Does NOT decide liveness over all schedules.", "4 C02"),
    "C03": ("R-PROV offset-unit provenance at every split_block site, exact path-formula implication for the squash preconditions (truth table over 12 atoms), R-PROV id length unit",
            "Decides the offset-unit discipline of the text path, that the mutating part of try_squash implies all nine preconditions, and that "
            "item lengths are UTF-16 counts. Does NOT decide the reference-model equivalence.", "4 C03"),
    "C04": ("R-PROV origin capture at every Item::new site, R-OWN flag/pointer writer tables with ownership closure, R-PROV integration writes, split chaining",
            "Decides origin capture, tombstone monotonicity (DELETED is never clearable), that integration only inserts, the list-pointer "
            "owner table and the chaining of split halves. Does NOT decide pairwise order over histories.", "4 C04"),
    "C05": ("R-PROV position of new map entries, R-GUARD/R-PAIR winner bookkeeping with the exact formula of needs_deletion, subtree deletion pairing, map pointer fix-up",
            "Decides the structural LWW mechanism (new entry right of current, right-most wins, overridden entry deleted, subtree recursion, "
            "map pointer fix-up on squash/split). Does NOT decide which write wins over all causal shapes.", "4 C05"),
    "C06": ("R-ORDER/R-PROV diff writers, R-SIB v1/v2, R-OWN shrink sites of the block list, R-PROV skip-aware state vector, R-GUARD diff_state_vectors cases",
            "Decides ordering/provenance of the diff encoders, that the block store only shrinks inside squash, the skip override of the state "
            "vector and the two cases of diff_state_vectors. Does NOT decide completeness of the diff over all state pairs.", "4 C06"),
    "C07": ("R-PAIR recording of every state change in the transaction sets, exact path formula of the emission condition, R-ORDER commit ordering/latch, R-SIB v1/v2",
            "Decides that every mark_as_deleted/push is recorded, the exact emission condition, commit ordering and once-only emission. Does NOT "
            "decide follower equality after every transaction.", "4 C07"),
    "C08": ("R-SIB alt.rs twins + version-purity of every *_v1/*_v2 function, R-PAIR delete-set union over every input, R-GUARD encode_diff selection",
            "Narrow: 'for v1 and v2 alike' (twins agree, no cross-version call anywhere), delete sets of all inputs are merged, per-client "
            "filtering reads the given state vector. The k-way merge itself is value-level and NOT decided.", "4 C08"),
    "C09": ("R-WIRE writer/reader grammar agreement (word languages extracted from resolved HIR, 27 function pairs), count/trip-count linear identities, flag/field agreement by exact MIR path formulas, primitive-layer method pairing (v1, v2, Write/Read defaults, column order), tag/bias tables",
            "Decides that every codec pair agrees structurally: same primitive sequences per arm, counts equal loop trips, optional fields written iff their flag bit is set and read iff tested, v1/v2 primitive layers mirror each other. "
            "Does NOT decide value-level equality (number classing, RLE run state) nor that Yjs assets decode.", "4 C09"),
    "C10": ("instantiated (monomorphic) call graph from the decode entry points (rustc_private mono walk incl. foreign generic MIR), R-PANIC on MIR Assert terminators + panic-API call table with sound local discharge patterns and a frozen bound table, R-ALLOC wire-taint to allocation sizes, R-REC SCCs, R-UB unchecked calls",
            "Decides absence of panic / unbounded-allocation / unbounded-recursion / UB constructs in the parse layer of the decode cone (every site discharged by pattern, frozen bound argument, or reported); "
            "L2 arithmetic/indexing on decoded values is inventory. Does NOT decide time/memory bounds as numbers (e.g. v2 run-length counts).", "4 C10"),
    "C11": ("R-OWN/R-ORDER dispatch structure (trigger once per changed type, behind the commit latch), exact formula of add_changed_type, R-GUARD path counting, compile_fail witness (thorough)",
            "Narrow: at most one event per observer per transaction, ownership of the changed set, path indices count live countable items, and "
            "(thorough) a witness that an observer cannot mutate through &TransactionMut. Exactness of deltas is NOT decided.", "4 C11"),
    "C12": ("R-SIB async/blocking variants, R-PAIR/R-GUARD keep-vs-GC protection with path formulas, scope guards in try_process, redo wiring order",
            "Narrow: async/blocking twins agree, undoable tombstones are kept and GC honours KEEP, scope/liveness guards of pop, redo creates a "
            "replicated copy. The inverse law over histories is NOT decided.", "4 C12"),
    "C13": ("R-ORDER/R-OWN refusal under GC, R-PROV bound dependence of every splittable arm of encode_slice (leaf-definition analysis), R-WIRE slice codec",
            "Decides the GC refusal path and that every splittable content kind honours both slice bounds on every path (this is the 'cuts "
            "after exactly one unit' defect class). Equality of restored content over histories is NOT decided.", "4 C13"),
    "C14": ("R-TABLE serde field/assoc tables (HIR), R-GUARD resolution guards, R-PROV anchor provenance",
            "Narrow: JSON tables of writer and reader agree, resolution counts live countable items left of the anchor after follow_redone, anchors "
            "are element ids. Position stability over histories is NOT decided.", "4 C14"),
    "C15": ("R-GUARD GC effects under is_deleted && !keep (path formulas), R-PROV id ranges preserved, R-OWN length caches untouched, R-GUARD entry points, R-PAIR integration under a collected parent",
            "Decides that GC mutates only collectable items, preserves id ranges, never touches length caches or flags other than COUNTABLE, runs only "
            "when enabled, and that integration below a collected parent keeps the id range. Observational equality is NOT decided.", "4 C15"),
    "C16": ("R-GUARD/R-PAIR emptiness guard or pruning at every site that adds a per-client entry, R-OWN raw constructor users",
            "Narrow: the 'no empty per-client entry' clause of canonical form at all 12 entry-adding sites, and who may bypass canonicalisation. "
            "The set algebra itself is value-level and NOT decided.", "4 C16"),
    "C17": ("R-OWN/R-PROV/R-GUARD cached length maintenance, R-GUARD visibility predicate at every content-read site (disjunctive edge necessity + verified helpers/filtered iterators)",
            "Decides symmetric maintenance of the two cached lengths and that every enumerated read path filters tombstones the same way. "
            "Pairwise equality of accessors on all states is NOT decided.", "4 C17"),
    "C18": ("R-SIB Protocol/AsyncProtocol handlers, R-PROV handler dataflow, exact path-formula implication of the awareness clock guard",
            "Decides handler-by-handler agreement of the two protocol traits, the handshake dataflow, and that every write to an existing awareness "
            "state implies the strict clock guard. Convergence under interleavings is NOT decided.", "4 C18"),
    "C19": ("R-ABI typed Rust signature vs parsed C prototype for all 206 exports, R-PROV wrapper->API callee sets vs frozen reviewed table + v1/v2 twins + version purity, R-PROV scalar pass-through name classes, R-TABLE tag constants and producer/consumer union-field agreement",
            "Decides that a C caller compiled against libyrs.h hits the signature Rust implements, that every wrapper still delegates to the reviewed API items, that integer parameters land on same-class parameters, and that tag tables agree. "
            "Behavioural conformance of C-driven documents is NOT decided.", "4 C19"),
    "C20": ("R-PAIR flag/index pairing, links copied at every split site, unlink on delete (path formula), dependency checks, boundary provenance",
            "Decides the link bookkeeping clauses at every set/clear/split/delete site. That a quotation yields exactly the current range over "
            "histories is NOT decided.", "4 C20"),
}

# clauses added after the seeded-change rounds (DESIGN.md §7): (technique, text)
EXTRA = {
    "C01": ("exact decision table of the YATA conflict scan by truth table over loop-round path formulas; the stash rules of C02 (a, b2, g)",
            "Also decides that the per-item decisions of Item::resolve_conflict equal the YATA rule (move left / clear / continue / insert), and the C02 stash clauses."),
    "C02": ("R-OWN every mutation of a `missing` vector is set_min; R-GUARD every dependency kind is tested with the skip-aware is_missing of the id returned",
            "Also decides that stashed dependency clocks are only lowered and that Update::missing_dependency tests every dependency kind with BlockStore::is_missing."),
    "C03": ("R-GUARD attribute bookkeeping under liveness (update_current_attributes sites); R-GUARD positional traversals consume item lengths only under a liveness test",
            "Also decides that tombstoned formatting marks never enter current attributes and that index<->place traversals count live elements only."),
    "C04": ("squash preconditions and conflict-scan decision table shared with C03/C01; R-PROV partial integration (Item::trim, integrate_gc/skip offsets)",
            "Also decides the squash preconditions, the conflict-scan decision table, and that partial integration re-anchors id, length, content, left and origin by the same offset."),
    "C05": ("R-ORDER the right-most test in splice reads item.right before any overwrite", "Also decides the read-before-overwrite order of the map fix-up in splice."),
    "C06": ("R-PROV announced start clock = clock(first written block) + offset trimmed from that block (MIR value roots)",
            "Also decides the first-block offset identity of write_blocks_from and Update::encode_diff."),
    "C08": ("R-ORDER/R-GUARD sort before gap in merge_updates (path formula of the Skip construction AND `head decoder advanced` unsatisfiable); first-block offset identity of encode_diff",
            "Also decides that merge_updates cannot synthesise a Skip in a round that advanced the head decoder without re-sorting, and the offset identity of encode_diff."),
    "C09": ("R-TABLE inverse operators of packed words and running values of the v2 columns (shift/mask, sub/add, negation, delete-set running clock)",
            "Also decides that the v2 run-length columns unpack with the inverse operators of the writer (value-level only to that extent)."),
    "C10": ("frozen bound arguments may carry machine-checked premises (narrow_param: every caller passes a constant or a value zero-extended from <= 32 bits)",
            "Bound arguments that rest on other functions are re-checked on every run where a premise kind exists."),
    "C12": ("R-FIXPOINT redone chains are loop-carried (flow-sensitive taint from a lookup's result to its own argument)",
            "Also decides that every redone-chain lookup of an item other than self in ItemPtr::redo is iterated."),
    "C13": ("R-PROV both bounds of a string slice are applied with split_str(.., Utf16)", "Also decides the unit of string slice bounds."),
    "C14": ("R-GUARD the anchor's own offset counts only for a live countable anchor", "Also decides that a deleted anchor contributes no offset of its own."),
    "C15": ("keep propagation through squash shared with C12", "Also decides that a squash carries KEEP into the merged block."),
    "C16": ("R-GUARD same-element belief rule on the interval lists (value numbering of indexes over MIR)",
            "Also decides that every store into element k of a range list is decided by a condition reading element k. The set algebra itself stays undecided."),
    "C17": ("R-GUARD attribute bookkeeping and positional traversals under liveness (frozen function list, 21 length-consuming steps)",
            "Also decides that formatting marks and item lengths are consumed only under a liveness test in the listed traversals."),
    "C18": ("R-PROV/R-ORDER the SyncStep2 payload is exactly encode_state_as_update_v1(&sv) and its call dominates the reply",
            "Also decides that the reply to SyncStep1 is the diff on every path."),
    "C19": ("R-PROV running insertion index of loop wrappers advances by the inserted count (MIR roots)",
            "Also decides the index arithmetic of yarray_insert_range."),
    "C20": ("R-OWN who-may-call table of clear_linked with ownership closure + squash precondition `neither linked`",
            "Also decides that the LINKED flag is cleared only where quotations go away or move on (never on the deletion path)."),
}

# clauses added after the second seeded round
EXTRA2 = {
    "C01": ("relay clauses C06.g/h/i", "Also the relay clauses of C06."),
    "C02": ("R-GUARD the retry decision is independent of the remainder of Update::integrate", "Also decides that the stash is examined whatever the incoming update left behind."),
    "C03": ("R-PAIR BlockIter.rel is rewritten after every arithmetic use", "Also decides that the in-block offset of a BlockIter is consumed once."),
    "C04": ("stashed deletions inside the incoming range (C06.i)", "Also C06.i."),
    "C05": ("C02.g dependency test", "Also C02.g."),
    "C06": ("R-PROV every arm of encode_with_offset subtracts the offset; R-PROV stashed deletions stay inside the incoming range (value numbering)", "Also decides the offset arms of encode_with_offset and the remainder arithmetic of apply_delete."),
    "C07": ("running value of the v2 delete-set column (C09.packed)", "Also decides the v2 delete-set running value."),
    "C08": ("C06.h offset arms", "Also C06.h."),
    "C10": ("constant index into a decoded container needs a dominating non-emptiness test (armed in L2)", "One sound local pattern is armed in the algebra layer."),
    "C11": ("R-ORDER flush before re-attributing in TextEvent::get_delta", "Also decides that the pending delta operation is flushed before its attribute set changes."),
    "C12": ("R-ORDER no keep(false) pass reachable after the keep(true) pass", "Also decides the order of the release and protect passes in handle_after_transaction."),
    "C13": ("R-OWN writers of the encoder in encode_state_from_snapshot", "Also decides that a snapshot restore writes blocks up to the snapshot's state vector and the snapshot's own delete set on every Ok path."),
    "C14": ("exact formula of BlockIter::can_forward by truth table", "Also decides the skip rule of the walk that picks the anchoring element."),
    "C16": ("R-GUARD merged pieces are appended with a look at the last entry", "Also decides coalescing of merged pieces in binary operations."),
    "C18": ("R-GUARD first contact recorded unconditionally in the Vacant arm", "Also decides that a never-seen client is recorded with its clock whatever the entry carries."),
    "C19": ("R-SIB/R-TABLE option flag constants of the two YOptions conversions", "Also decides the (option, flag constant) table of the two conversions."),
    "C20": ("R-PROV the looked-up link set is never mutably borrowed before the last copy", "Also decides that the link set copied at a split is intact."),
}

# clauses added after the third seeded round
EXTRA3 = {p: ("R-PRED exact formulas of the predicates the property leans on (truth table); shared mechanism clauses run under this property (rules/mechanisms.py)",
              "Also decides the exact truth tables of the small predicates it leans on and the clauses of the mechanisms it depends on (see DESIGN.md §3).")
          for p in ("C01", "C02", "C03", "C04", "C05", "C06", "C07", "C08", "C09", "C11", "C12", "C13", "C14", "C15", "C16", "C17", "C18", "C20")}
EXTRA3["C19"] = ("R-GUARD dispatch on optional attribute arguments (plain variant only under is_null)", "Also decides the NULL-dispatch of the four text wrappers with an attribute argument.")
for _p, _t in (("C02", "R-PROV cached frontier monotone in Update::integrate; every dependency test unconditional"),
               ("C06", "R-ANSWER single definition of the sync answers"), ("C07", "R-ANSWER single definition of the event payload"),
               ("C08", "R-ANSWER single definition of the alt.rs answers; encode_diff dominates every Ok return"),
               ("C09", "R-PROV dictionary ids of the attributed id-map codec"), ("C13", "R-ANSWER snapshot()"),
               ("C15", "R-PROV extent of a compacted GC run (value numbering)"), ("C16", "R-GUARD from_store covers GC ranges"),
               ("C17", "R-GUARD the XML tree walk stays in its subtree")):
    EXTRA3[_p] = (EXTRA3[_p][0] + "; " + _t, EXTRA3[_p][1])

# clauses added during / after the fourth seeded round
EXTRA4 = {
    "C03": ("R-ORDER cursor written back before a BlockIter method delegates to another", "Also decides the cursor write-back in BlockIter::delete / slice."),
    "C06": ("R-PROV the four trim functions and the BlockSlice dispatch; first block trimmed whatever its kind", "Also decides the trim functions."),
    "C11": ("exact decision tables of map key changes (event_keys) and sequence changes (event_change_set) by truth table", "Also decides the decision tables of key and sequence changes (not the delta construction of text)."),
    "C12": ("redone-chain rule crate-wide incl. Store::follow_redone; offset base inside a chain walk", "Also decides follow_redone."),
    "C17": ("R-GUARD every consumer of a formatting mark under liveness (42 sites); Branch::first returns live items only", "Also decides the generalised attribute bookkeeping clause and the head-of-list selector."),
    "C19": ("R-TABLE cell kind tables (input tag -> TypeRef, From<T> for YOutput -> tag)", "Also decides the input and output cell-kind tables."),
}

EXTRA5 = {
    "C01": ("shared clauses of the state-vector mechanism (exact skip override, hole-aware known_state) and the delete-set codecs in the block-wire grammar", "Also decides the hole-aware state vector / known state and the delete-set wire pair."),
    "C02": ("R-PROV+R-GUARD BlockPicker::switch stashes the rest of the queue under the drained block's client (operands by provenance); state-vector mechanism", "Also decides which queue is stashed with a block and the hole-aware state vector."),
    "C03": ("R-TABLE text units: content kinds under which the consuming effect of text::remove / find_position is reachable (kinds_reaching over discriminant switches)", "Also decides which content kinds count as a unit of a text in remove / find_position."),
    "C05": ("delete-set mechanism (mirror of IdRanges::merge, no empty piece, half-open discipline)", "Also decides structural clauses of the delete-set algebra a transaction's deletions travel in."),
    "C06": ("exact R-PROV+R-GUARD rule for BlockStore::get_state_vector (value = clock_start of this round's ranges, decided by presence only, no removal) and known_state", "Also decides the exact form of the skip override."),
    "C07": ("state-vector mechanism; delete-set codecs in the block-wire grammar", "Also decides the delete-set wire pair under this property."),
    "C08": ("R-SIB mirror: the twin branches of IdRanges::merge are role-exchanged images of each other (name-free value unification)", "Also decides the operand symmetry of the range-list union behind merged delete sets."),
    "C12": ("R-SCAN quantifier predicates: UndoStack::is_deleted scans the whole stack, Branch::is_parent_of walks the chain, every scope test is `any` over the scope's own iterator", "Also decides the quantifier shape of the undo manager's membership predicates."),
    "C13": ("count rule: no iteration of a loop with an announced count can emit nothing (continue/break markers in the wire grammar); state-vector mechanism", "Also decides that every announced section of a snapshot update is written."),
    "C14": ("R-PROV every producer of a StickyIndex in at() takes its anchor from the liveness-aware walk behind a successful try_forward", "Also decides the anchor of every constructor used by StickyIndex::at."),
    "C16": ("R-GUARD no empty piece appended (strict start<end by value numbering); R-SCAN subset_of; R-SIB mirror of IdRanges::merge; attribute-set algebra by whole-element equality; half-open discipline of comparisons in ids.rs", "Also decides: no empty range stored by the interval algorithms, operand symmetry of merge, whole-element membership in attribute sets, unshifted bound comparisons — not the set-theoretic result."),
    "C17": ("same-item liveness: the test that decides a content read looks at the item that is read (value keys)", "Also decides that liveness tests look at the yielded item."),
    "C18": ("state-vector mechanism", "Also decides the hole-aware state vector SyncStep1 advertises."),
    "C20": ("R-GUARD end-of-range tests of a text quotation evaluated for every item; R-SIB every emitting content arm of DiffAssembler::process honours start state and end test", "Also decides the boundary handling of Text and XmlText quotations for every kind of element (one genuine defect fixed)."),
}

EXTRA6 = {
    "C01": ("pending-merge clauses in the export mechanism; identity, weak-wire and update-events mechanisms", "Also decides stash forwarding, branch identity, weak-link boundary bits and the emission condition under this property."),
    "C02": ("R-GUARD each stash is forwarded under its own presence test alone; R-SCAN BlockSet::exclude examines every known range (natural-loop exit edges, sorted-key exit accepted)", "Also decides the independence of the two stash kinds in full-state exports and the completeness of the de-duplication in front of integration."),
    "C03": ("R-PAIR must-pass-through: a formatting mark deleted by insert_format is accounted for in the negated attributes on every path", "Also decides the bookkeeping of replaced formatting marks."),
    "C04": ("R-TABLE flag writers set_X / clear_X touch the bit of their own name", "Also decides the flag writers."),
    "C05": ("update-events mechanism (emission condition of the v1/v2 update events by truth table)", "Also decides that delete-only transactions are published."),
    "C06": ("BlockSet::exclude completeness; per-gap state of the formatting clean-ups; unit of the v2 string column", "Also decides the completeness of de-duplication before integration."),
    "C07": ("R-PROV the update event writes TransactionMut.delete_set itself, once, and nothing derived from it", "Also decides that the event's delete set is the transaction's own."),
    "C08": ("state-vector mechanism (BlockSet::exclude completeness)", "Also decides the de-duplication step diff_updates / one-by-one application rely on."),
    "C09": ("R-TABLE weak-link boundary kind <-> info bits over 72 semantic states (writer) and by truth table (reader); unit of the v2 string column; branch identity in the parent info", "Also decides the meaning-level agreement of the weak-link info byte, which the grammar comparison cannot see."),
    "C11": ("R-PROV the collections a formatting clean-up decides against are created for its own gap (liveness mechanism)", "Also decides that clean-up state does not survive from one gap to the next."),
    "C13": ("block-wire mechanism incl. the unit of the v2 string column", "Also decides the string-column unit under this property."),
    "C14": ("R-GUARD branch identity: Branch.name is read only where Branch.item is None (4 of 4)", "Also decides the root/nested decision of from_type."),
    "C15": ("liveness mechanism (tombstoned marks never take part in attribute decisions)", "Also decides mark liveness in the clean-ups, where GC-on and GC-off replicas would otherwise differ."),
    "C18": ("R-PROV local side of the awareness register: outgoing entries, selection, clock bump decided by the map look-up alone", "Also decides the local writes and the outgoing update of the awareness register."),
    "C19": ("R-GUARD signed C values become unsigned Rust values exactly under x >= 0 (value numbering, 3 of 3)", "Also decides the domain guard of signed option fields."),
    "C20": ("identity and weak-wire mechanisms", "Also decides branch identity and the weak-link boundary bits under this property."),
}

EXTRA7 = {
    "C01": ("creation mechanism (origins at every local Item::new site)", "Also decides origin capture under this property."),
    "C02": ("R-ANSWER the block picker ends only on exhaustion of the client list (subject of each Try::branch)", "Also decides when the walk over an incoming update may end."),
    "C03": ("R-PROV a text measures itself in the configured unit (no Text method reads the block length; push at Text::len); creation mechanism", "Also decides the unit of Text::len / push."),
    "C04": ("liveness mechanism", "Also decides liveness in positional traversals under this property."),
    "C06": ("R-TABLE kind-preserving converters (Block::splice, Block::as_slice) via kinds_reaching; clock arithmetic identities", "Also decides that splitting a block keeps its kind."),
    "C07": ("R-GUARD the update emission is decided by the latch and the event registry alone", "Also decides that nothing else gates the update events."),
    "C08": ("kind-preserving converters in the merge mechanism", "Also decides that slicing in merge_updates keeps the block kind."),
    "C09": ("R-TABLE key -> Any kind of the sub-document options (writer aggregate / resolved From impl vs reader pattern)", "Also decides the value kinds of the options map."),
    "C11": ("R-PROV fresh weak-link guard per changed type (observers mechanism)", "Also decides that event bubbling state is per changed type."),
    "C12": ("R-PROV cursor of the delete-set block walk (delete-set mechanism)", "Also decides the cursor arithmetic of IdSet::blocks()."),
    "C13": ("R-ORDER+R-GUARD scoped GC stays inside the delete range (gc-scope mechanism)", "Also decides that a scoped collection does not reach past its range."),
    "C14": ("R-TABLE clock arithmetic identities and closed-interval bisections (lookup mechanism)", "Also decides clock_range / next_clock / bisection discipline the anchor lookup relies on."),
    "C15": ("gc-scope mechanism; C17.b content reads in the liveness mechanism", "Also decides scoped collection and liveness of yielded content."),
    "C16": ("lookup mechanism: bisection discipline of IdRanges::find_start, range accessors", "Also decides the search loop behind attributions()."),
    "C17": ("R-TABLE ItemContent::read uses the offset in every multi-element arm", "Also decides the read offset."),
    "C18": ("range accessors in the state-vector mechanism (clock_start = first().start)", "Also decides what clock_start answers."),
    "C20": ("C17.b content reads in the liveness mechanism", "Also decides liveness of the values a quotation yields."),
}

EXTRA8 = {
    "C02": ("R-PAIR every integrated Skip is entered in the gap table on every path", "Also decides that a Skip block never exists without its gap-table entry."),
    "C03": ("liveness mechanism (content reads in closures need their own liveness test or an upstream filter)", "Also decides liveness of the entry Map::get_or_init reads."),
    "C05": ("liveness mechanism", "Also decides liveness of every content read of map iterators."),
    "C07": ("creation mechanism", "Also decides the origins of locally created items that the update events carry."),
    "C08": ("R-GUARD nested cursor of IntoBlocks (path formula + truth table)", "Also decides that the per-input block stream changes client only on exhaustion."),
    "C10": ("R-PANIC infallible callee behind the unwrap of Any::to_json", "Also decides that JSON re-encoding of a decoded value originates no error."),
    "C11": ("R-PROV subject of an event (target vs current_target)", "Also decides that every change summary is computed over the event's own target."),
    "C12": ("R-GUARD exact capture predicate of UndoManager::should_skip (truth table)", "Also decides which transactions become undo steps."),
    "C13": ("R-OWN encoder out-parameter of the thin encode entry points (export mechanism)", "Also decides that snapshot encoding has no shortcut through another exporter."),
    "C16": ("R-SCAN sweep cursors of IdRanges::exclude / intersect", "Also decides how the sweep over the other operand advances."),
    "C17": ("R-TABLE node-kind conversion tables are complete", "Also decides that sibling conversion tables know the same node kinds."),
    "C18": ("R-PROV the awareness handlers hand the received update on untouched", "Also decides that the protocol layer does not filter awareness updates."),
    "C19": ("R-TABLE Any kind -> output cell in both From impls", "Also decides the tag of every converted value kind."),
    "C20": ("R-GUARD cut before marking in LinkSource::materialize", "Also decides that adjacency alone chooses between cutting and marking whole."),
}

EXTRA9 = {
    "C01": ("C08.d diff selection in the state-vector mechanism; C09.json / C09.varint in block-wire", "Also decides the per-client selection of update diffs and the var-int bit layout under this property."),
    "C02": ("C08.a v1/v2 twins of alt.rs in the merge mechanism", "Also decides that the v2 merge used by the full-state export equals its v1 twin."),
    "C03": ("R-PROV type-api delegation table (38 delegations) and Map::try_update truth table; R-PAIR balanced formatting marks", "Also decides that the type methods hand on their own arguments and that opening marks are always closed."),
    "C05": ("type-api mechanism", "Also decides the arguments Map::insert / insert_attribute / remove hand to their workers."),
    "C06": ("C08.d in state-vector; var-int layout in block-wire", "Also decides the var-int bit layout."),
    "C09": ("R-OWN sole writer of the v1 JSON text; R-TABLE var-int continuation / mask / shift agreement", "Also decides JSON text ownership and the var-int bit layout."),
    "C12": ("R-PROV delegation table of the manager's thin methods", "Also decides direction / stack / origin of the thin undo methods."),
    "C13": ("R-PROV options of a destroyed sub-document", "Also decides that a replaced sub-document keeps its whole options value."),
    "C15": ("R-PROV delegation table of the collector's entry points", "Also decides what collect / collect_all / mark / mark_all hand on."),
    "C17": ("type-api mechanism", "Also decides the arguments of the read methods get / len."),
    "C18": ("R-PROV delegation table of the thin Awareness methods", "Also decides which entry the local-state methods address."),
    "C20": ("R-GUARD decision tables of join_linked_range", "Also decides which quotations a newly integrated item joins."),
}

EXTRA10 = {
    "C01": ("delete-set mechanism (running cursor of the v2 delete-set codec)", "Also decides the v2 delete-set cursor under this property."),
    "C02": ("R-PROV+R-GUARD prune_pending forwards both stashes", "Also decides what prune_pending hands to its caller."),
    "C06": ("R-PROV upper bound of the block export (defect #17, fixed)", "Also decides that the answer to a state vector reaches to the end of each block list."),
    "C07": ("R-PROV upper bound of the block export (defect #17, fixed)", "Also decides that update events carry blocks integrated behind a gap."),
    "C11": ("lookup mechanism (Item::content_len identity)", "Also decides the unit in which deleted lengths are measured."),
    "C12": ("R-GUARD one-shot state of the acquire futures", "Also decides that a pending poll does not consume the transaction's origin."),
    "C14": ("precedence of the JSON scope keys", "Also decides the order item / tname / type of the JSON reader."),
    "C16": ("R-OWN who may append with push_coalesced; R-PROV delegation table of the thin id-set layer", "Also decides who may use the append-only helper and what the thin layer hands on."),
    "C17": ("R-SCAN whole renderings end on exhaustion; R-PROV read entry points", "Also decides the loop exits of the whole-collection renderings."),
    "C18": ("R-PROV public wrappers of the awareness merge hand the update on untouched", "Also decides that no wrapper filters an awareness update."),
    "C19": ("R-TABLE event cells per tag and position", "Also decides which value of a change lands in which C field."),
    "C20": ("predicate link_is_single; R-PROV weak string rendering", "Also decides when a link is encoded as a single element."),
}

EXTRA11 = {
    "C02": ("C07.e (after_state) in the export mechanism", "Also decides whether a transaction behind a gap emits an update."),
    "C03": ("type-api: unset_missing, apply_delta dispatch, kind of the type a preliminary value creates", "Also decides the attribute bookkeeping of attributed inserts and the dispatch of deltas."),
    "C04": ("block-wire mechanism with the tightened packing rule of the origin-clock column", "Also decides how the v2 origin-clock column packs negative runs."),
    "C06": ("every kind of slice is trimmed (kinds_reaching over BlockSlice)", "Also decides that Skip slices are trimmed like GC slices."),
    "C07": ("R-TABLE subscription ↔ event list", "Also decides that v1 / v2 subscribers are registered on their own list."),
    "C08": ("pivots of the interpolation searches stay in range; R-GUARD document-free questions about an update (extends, state_vector_lower, insertions)", "Also decides where the first probe of the block searches lands and what the update helpers answer."),
    "C09": ("column codec pairs agree on their primitives", "Also decides the primitive each RLE column travels in."),
    "C14": ("R-GUARD resolution of an element-relative index (StickyIndex::get_item)", "Also decides which block an element-relative index resolves to."),
    "C19": ("R-TABLE delta op conversions", "Also decides which Delta variant feeds which C delta constructor."),
    "C05": ("content mechanism (get_last per kind); delegated content readers", "Also decides which element of an entry's block is its value."),
    "C01": ("R-SCAN boundary ids of range walks compared as whole ids (identity mechanism)", "Also decides that range boundaries are matched by client and clock."),
    "C13": ("Options in the block-wire grammar list", "Also decides the wire grammar of a sub-document payload under this property."),
    "C10": ("R-GUARD parse-layer validation sites (checked arithmetic with error propagation)", "Also decides that the range invariants of decoded values are established while parsing."),
    "C11": ("R-TABLE every event kind bubbles (set_current_target)", "Also decides that deep observers see a current target for every kind of event."),
    "C12": ("predicate branch_eq (scope test)", "Also decides what the scope test compares."),
    "C16": ("R-PROV tiling of IdMap::attributions", "Also decides that attribution answers tile the queried range."),
    "C17": ("R-GUARD presence by count in BlockIter::read_value", "Also decides what makes Array::get answer Some."),
    "C20": ("unquote walks from the head of the start element's parent", "Also decides where dereferencing starts its walk."),
}

EXTRA12 = {
    "C09": ("version-pairing mechanism (no *_v1 function calls v2 code or vice versa; alt.rs helpers have equal skeletons)", "Also decides that the document-free v2 helpers answer v2 bytes."),
    "C12": ("content mechanism: R-TABLE a copy of an ItemContent keeps its kind", "Also decides the kind of the content redo re-creates."),
    "C14": ("R-SIB serde width of ClientID (writer and reader use the same scalar impl)", "Also decides that the JSON form of an id reads the width it writes."),
    "C15": ("R-GUARD Hook::get answers Some only for a root type or a live item", "Also decides what a logical reference to a deleted collection resolves to."),
    "C16": ("R-GUARD interning cache written only after a failed lookup; R-SIB serde writer and visitors of IdSet use the same lib0 version", "Also decides that a cached attribute handle is never displaced and that the serde form of an IdSet is read as written."),
    "C17": ("R-PROV C length readers reach the length method of their type", "Also decides which length the C readers answer."),
    "C19": ("R-ORDER the hand-back field of an undo observer is read after the callback; R-PROV positional / keyed C wrappers hand the caller's own index, length, key and payload on (25-entry delegation table)", "Also decides that metadata assigned in a C undo observer is kept and that the positional wrappers pass their operands through."),
    "C20": ("R-PROV C quote wrappers hand the four boundary parameters on; R-GUARD ExplicitRange bounds", "Also decides the boundaries of quotations created through the C API."),
}

PENDING = {
}


def main():
    checks = []
    for pid in sorted(CHECKS):
        tech, text, ref = CHECKS[pid]
        for ex in (EXTRA, EXTRA2, EXTRA3, EXTRA4, EXTRA5, EXTRA6, EXTRA7, EXTRA8, EXTRA9, EXTRA10, EXTRA11, EXTRA12):
            if pid in ex:
                tech = tech + "; " + ex[pid][0]
                text = text + " " + ex[pid][1]
        checks.append({
            "property_id": pid,
            "quick_cmd": "python3 check.py %s --tier quick" % pid,
            "thorough_cmd": "python3 check.py %s --tier thorough" % pid,
            "evidence_file": "/verif/evidence/%s.json" % pid,
            "replay_cmd_template": "python3 check.py %s --tier quick  # violating instances listed in {path}" % pid,
            "engine": "ylint+rules",
            "level_claimed": {"category": "other", "text": text, "design_ref": "DESIGN.md §" + ref},
            "level_note": NOTE,
            "technique": "static analysis: " + tech,
        })
    na = [{"property_id": p, "reason": r} for p, r in sorted(PENDING.items())]
    man = {
        "version": 1,
        "setup_cmd": "cd /verif && ./setup.sh",
        "hooks": {
            "guard": "y_crdt_y_crdt_verif",
            "enable": "none needed: static analysis reads the unmodified sources (no instrumentation commits)",
            "baseline_off_cmd": "cd /repo && cargo test --workspace --no-fail-fast --offline",
            "source_commits": [],
            "add_only": True,
        },
        "engines": [
            {"name": "ylint", "path": "/verif/ylint", "serves_properties": sorted(CHECKS),
             "kind_free_text": "rustc_private driver (nightly) run as RUSTC_WORKSPACE_WRAPPER under cargo check: dumps resolved MIR (CFG, calls, "
                               "asserts), resolved HIR trees, signatures, const/enum/impl tables for every function body of yrs and yffi"},
            {"name": "rules", "path": "/verif/rules", "serves_properties": sorted(CHECKS),
             "kind_free_text": "Python rule modules over the facts: dominance, edge-necessity guards, exact path formulas with truth tables, term "
                               "(provenance) reconstruction, call-skeleton comparison, ownership-closed writer tables, wire grammars, ABI comparison"},
            {"name": "check.py", "path": "/verif/check.py", "serves_properties": sorted(CHECKS),
             "kind_free_text": "orchestrator: content-hash keyed fact cache, evidence, known findings, exit status"},
        ],
        "checks": checks,
        "not_applicable": na,
        "notes": "Every check decides structural clauses that are necessary conditions of its property, never the behaviour itself; "
                 "see DESIGN.md for the per-property 'decides / does not decide' split and known_findings.json for recorded defects.",
    }
    json.dump(man, open(os.path.join(VERIF, "MANIFEST.json"), "w"), indent=1)
    print("MANIFEST.json: %d checks, %d not_applicable" % (len(checks), len(na)))


if __name__ == "__main__":
    main()
