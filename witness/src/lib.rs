//! Compile-fail witnesses (type-level clauses). Each violating program is paired with a compiling twin that
//! differs only by the offending line, so that a witness cannot pass merely because its paths are wrong.
//! Run with `cargo +nightly test --doc --offline` (stable ignores the error code).

/// C11.c — an observer only gets `&TransactionMut`: it cannot edit the document while events are computed.
///
/// Violating program: mutating through the transaction handed to the callback must not type-check.
/// ```compile_fail,E0308
/// use yrs::{Doc, Text, Transact, Observable, GetString};
/// let doc = Doc::new();
/// let text = doc.get_or_insert_text("t");
/// let t2 = text.clone();
/// let _sub = text.observe(move |txn, _e| {
///     t2.insert(txn, 0, "x"); // needs &mut TransactionMut, the callback has &TransactionMut
/// });
/// ```
///
/// Compiling twin: the same callback reading through the transaction.
/// ```
/// use yrs::{Doc, Text, Transact, Observable, GetString};
/// let doc = Doc::new();
/// let text = doc.get_or_insert_text("t");
/// let t2 = text.clone();
/// let _sub = text.observe(move |txn, _e| {
///     let _ = t2.get_string(txn);
/// });
/// ```
pub struct ObserverCannotMutate;

/// C11.c (deep observers) — same for `observe_deep`.
/// ```compile_fail,E0308
/// use yrs::{Doc, Map, Transact, DeepObservable};
/// let doc = Doc::new();
/// let map = doc.get_or_insert_map("m");
/// let m2 = map.clone();
/// let _sub = map.observe_deep(move |txn, _e| {
///     m2.insert(txn, "k", 1);
/// });
/// ```
/// ```
/// use yrs::{Doc, Map, Transact, DeepObservable};
/// let doc = Doc::new();
/// let map = doc.get_or_insert_map("m");
/// let m2 = map.clone();
/// let _sub = map.observe_deep(move |txn, _e| {
///     let _ = m2.len(txn);
/// });
/// ```
pub struct DeepObserverCannotMutate;

/// C07 / C11 — update observers also only see `&TransactionMut`.
/// ```compile_fail,E0308
/// use yrs::{Doc, Text, Transact};
/// let doc = Doc::new();
/// let text = doc.get_or_insert_text("t");
/// let _sub = doc.observe_update_v1(move |txn, _e| {
///     text.insert(txn, 0, "x");
/// });
/// ```
/// ```
/// use yrs::{Doc, Text, Transact, GetString};
/// let doc = Doc::new();
/// let text = doc.get_or_insert_text("t");
/// let _sub = doc.observe_update_v1(move |txn, _e| {
///     let _ = text.get_string(txn);
/// });
/// ```
pub struct UpdateObserverCannotMutate;

/// C03/C17 — a read transaction cannot be used to write.
/// ```compile_fail,E0308
/// use yrs::{Doc, Text, Transact};
/// let doc = Doc::new();
/// let text = doc.get_or_insert_text("t");
/// let mut txn = doc.transact();
/// text.insert(&mut txn, 0, "x");
/// ```
/// ```
/// use yrs::{Doc, Text, Transact};
/// let doc = Doc::new();
/// let text = doc.get_or_insert_text("t");
/// let mut txn = doc.transact_mut();
/// text.insert(&mut txn, 0, "x");
/// ```
pub struct ReadTxnCannotWrite;
