//! ylint — rustc_private fact extractor for the y-crdt static checks.
//!
//! Invoked as RUSTC_WORKSPACE_WRAPPER: argv[1] is the real rustc path (used as argv0).
//! For the crates named in YLINT_PKGS (default "yrs,yffi") it runs the normal front end
//! and, after analysis, writes one JSON fact file
//!   $YLINT_OUT/<pkg>.<tag>.json
//! containing, for every function body of the crate: signature, resolved MIR (CFG,
//! assignments, calls with resolved callees, asserts) and a resolved HIR expression tree.
//! It never emits verdicts; the rules live in /verif/rules.
#![feature(rustc_private)]
#![allow(clippy::all)]

extern crate rustc_abi;
extern crate rustc_ast;
extern crate rustc_driver;
extern crate rustc_hir;
extern crate rustc_interface;
extern crate rustc_middle;
extern crate rustc_span;

mod hir_dump;
mod json;
mod mir_dump;
mod mono;

use json::J;
use rustc_driver::Compilation;
use rustc_hir::def::DefKind;
use rustc_interface::interface::Compiler;
use rustc_middle::ty::TyCtxt;

struct Cb;

pub fn span_loc(tcx: TyCtxt<'_>, sp: rustc_span::Span) -> (String, usize, usize) {
    let sm = tcx.sess.source_map();
    let lo = sm.lookup_char_pos(sp.lo());
    let hi = sm.lookup_char_pos(sp.hi());
    let name = match &lo.file.name {
        rustc_span::FileName::Real(r) => match r.local_path() {
            Some(p) => p.to_string_lossy().to_string(),
            None => format!("{:?}", r),
        },
        other => format!("{:?}", other),
    };
    (name, lo.line, hi.line)
}

/// Line of the outermost user-written source location (macro call site for expansions).
pub fn line_of(tcx: TyCtxt<'_>, sp: rustc_span::Span) -> usize {
    let sp = sp.source_callsite();
    tcx.sess.source_map().lookup_char_pos(sp.lo()).line
}

impl rustc_driver::Callbacks for Cb {
    fn after_analysis<'tcx>(&mut self, _c: &Compiler, tcx: TyCtxt<'tcx>) -> Compilation {
        let pkg = std::env::var("CARGO_PKG_NAME").unwrap_or_default();
        let pkgs = std::env::var("YLINT_PKGS").unwrap_or_else(|_| "yrs,yffi".to_string());
        if !pkgs.split(',').any(|p| p == pkg) {
            return Compilation::Continue;
        }
        // only the library target (build scripts / bins / tests of the same package are skipped)
        let crate_types = tcx.crate_types();
        if crate_types.iter().any(|t| matches!(t, rustc_session_crate_type::Executable)) {
            return Compilation::Continue;
        }
        let out_dir = match std::env::var("YLINT_OUT") {
            Ok(d) => d,
            Err(_) => return Compilation::Continue,
        };
        let tag = std::env::var("YLINT_TAG").unwrap_or_else(|_| "default".to_string());
        let t0 = std::time::Instant::now();

        let mut fns = Vec::new();
        let mut n_bodies = 0usize;
        for ldid in tcx.hir_body_owners() {
            let did = ldid.to_def_id();
            let kind = tcx.def_kind(did);
            match kind {
                DefKind::Fn | DefKind::AssocFn | DefKind::Closure => {}
                _ => continue,
            }
            n_bodies += 1;
            fns.push(fn_facts(tcx, ldid, kind));
        }
        let consts = hir_dump::const_table(tcx);
        let enums = mir_dump::enum_table(tcx);
        let structs = mir_dump::struct_table(tcx);
        let impls = hir_dump::impl_table(tcx);
        let mono = mono::collect(tcx);
        let argv: Vec<String> = std::env::args().collect();
        let mut features: Vec<J> = Vec::new();
        for (i, a) in argv.iter().enumerate() {
            if a == "--cfg" {
                if let Some(v) = argv.get(i + 1) {
                    if let Some(f) = v.strip_prefix("feature=") {
                        features.push(J::s(f.trim_matches('"').to_string()));
                    }
                }
            }
        }
        let root = obj! {
            "pkg": J::s(pkg.clone()),
            "crate": J::s(tcx.crate_name(rustc_span::def_id::LOCAL_CRATE).to_string()),
            "tag": J::s(tag.clone()),
            "features": J::Arr(features),
            "n_bodies": J::n(n_bodies),
            "wall_ms": J::n(t0.elapsed().as_millis()),
            "consts": consts,
            "enums": enums,
            "structs": structs,
            "impls": impls,
            "mono": mono,
            "fns": J::Arr(fns),
        };
        let mut s = String::with_capacity(64 << 20);
        root.write(&mut s);
        let path = format!("{}/{}.{}.json", out_dir, pkg, tag);
        let tmp = format!("{}.tmp{}", path, std::process::id());
        std::fs::write(&tmp, s).expect("ylint: cannot write fact file");
        std::fs::rename(&tmp, &path).expect("ylint: cannot rename fact file");
        Compilation::Continue
    }
}

use rustc_session::config::CrateType as rustc_session_crate_type;
extern crate rustc_session;

fn fn_facts<'tcx>(
    tcx: TyCtxt<'tcx>,
    ldid: rustc_span::def_id::LocalDefId,
    kind: DefKind,
) -> J {
    let did = ldid.to_def_id();
    let path = mir_dump::cpath(tcx, did);
    let def_path = mir_dump::path_str(tcx, did);
    let (file, line, end_line) = span_loc(tcx, tcx.def_span(did));
    let body_span = tcx.hir_body_owned_by(ldid).value.span;
    let (_, _, body_end) = span_loc(tcx, body_span);
    let kind_s = match kind {
        DefKind::Fn => "fn",
        DefKind::AssocFn => "assoc",
        DefKind::Closure => "closure",
        _ => "?",
    };
    let parent = if kind == DefKind::Closure {
        let mut p = tcx.parent(did);
        while tcx.def_kind(p) == DefKind::Closure {
            p = tcx.parent(p);
        }
        J::s(mir_dump::cpath(tcx, p))
    } else {
        J::Null
    };
    let sig = if kind != DefKind::Closure { hir_dump::sig_facts(tcx, did) } else { J::Null };
    let mir = mir_dump::mir_facts(tcx, ldid);
    let hir = hir_dump::hir_facts(tcx, ldid);
    let _ = end_line;
    obj! {
        "path": J::s(path),
        "def_path": J::s(def_path),
        "dp": J::s(mir_dump::abs_path(tcx, did)),
        "kind": J::s(kind_s),
        "parent": parent,
        "file": J::s(file),
        "line": J::n(line),
        "end_line": J::n(body_end),
        "sig": sig,
        "mir": mir,
        "hir": hir,
    }
}

fn main() {
    let args: Vec<String> = std::env::args().skip(1).collect();
    rustc_driver::run_compiler(&args, &mut Cb);
}
