//! Instantiated (monomorphic) call graph from configured roots — the algorithm of rustc's mono-item
//! collector restricted to call edges: every body is taken with the instance's substitutions applied
//! and every call is resolved under `TypingEnv::fully_monomorphized()`. Polymorphic roots are walked
//! with identity substitutions (calls on their type parameters stay unresolved leaves).
//!
//! Roots come from $YLINT_MONO_ROOTS: `;`-separated canonical function paths, plus the keyword
//! `@decode-impls` = `decode_v1`/`decode_v2` of every non-generic `impl Decode for T` of the crate.
use crate::json::J;
use crate::mir_dump::{cpath, path_str, ty_str};
use crate::obj;
use rustc_hir::def::DefKind;
use rustc_middle::mir::TerminatorKind;
use rustc_middle::ty::{self, Instance, InstanceKind, TyCtxt, TypeVisitableExt};
use rustc_span::def_id::{DefId, LOCAL_CRATE};
use std::collections::{HashMap, VecDeque};

const MAX_NODES: usize = 60_000;

pub fn collect<'tcx>(tcx: TyCtxt<'tcx>) -> J {
    let spec = match std::env::var("YLINT_MONO_ROOTS") {
        Ok(s) if !s.is_empty() => s,
        _ => return J::Null,
    };
    let wanted: Vec<&str> = spec.split(';').map(|s| s.trim()).filter(|s| !s.is_empty()).collect();
    let mut roots: Vec<Instance<'tcx>> = Vec::new();
    let mut root_names: Vec<J> = Vec::new();
    let mut missing: Vec<J> = Vec::new();

    // named roots
    let mut by_path: HashMap<String, DefId> = HashMap::new();
    for ldid in tcx.hir_body_owners() {
        let did = ldid.to_def_id();
        match tcx.def_kind(did) {
            DefKind::Fn | DefKind::AssocFn => {
                by_path.insert(cpath(tcx, did).replace("crate::", ""), did);
            }
            _ => {}
        }
    }
    for w in wanted.iter() {
        if *w == "@decode-impls" {
            for id in tcx.hir_crate_items(()).definitions() {
                let imp = id.to_def_id();
                if let DefKind::Impl { of_trait: true } = tcx.def_kind(imp) {
                    let tref = tcx.impl_trait_ref(imp).instantiate_identity().skip_norm_wip();
                    let tp = path_str(tcx, tref.def_id);
                    if !tp.ends_with("updates::decoder::Decode") {
                        continue;
                    }
                    let self_ty = tref.self_ty();
                    if self_ty.has_param() {
                        continue;
                    }
                    for m in ["decode_v1", "decode_v2"] {
                        let sym = rustc_span::Symbol::intern(m);
                        for it in tcx.associated_items(tref.def_id).filter_by_name_unhygienic(sym) {
                            let args = tcx.mk_args(&[self_ty.into()]);
                            if let Ok(Some(inst)) = Instance::try_resolve(tcx, ty::TypingEnv::fully_monomorphized(), it.def_id, args) {
                                roots.push(inst);
                                root_names.push(J::s(format!("<{} as Decode>::{}", ty_str(self_ty), m)));
                            }
                        }
                    }
                }
            }
            continue;
        }
        match by_path.get(&w.replace("yrs::", "").replace("crate::", "")) {
            Some(did) => {
                let args = ty::GenericArgs::identity_for_item(tcx, *did);
                roots.push(Instance::new_raw(*did, args));
                root_names.push(J::s(w.to_string()));
            }
            None => missing.push(J::s(w.to_string())),
        }
    }

    // worklist
    let mut index: HashMap<Instance<'tcx>, usize> = HashMap::new();
    let mut nodes: Vec<Instance<'tcx>> = Vec::new();
    let mut edges: Vec<(usize, usize)> = Vec::new();
    let mut unresolved: HashMap<String, usize> = HashMap::new();
    let mut virtuals: HashMap<String, usize> = HashMap::new();
    let mut no_mir: HashMap<String, usize> = HashMap::new();
    let mut queue: VecDeque<usize> = VecDeque::new();
    let mut truncated = false;
    for r in roots.iter() {
        if !index.contains_key(r) {
            index.insert(*r, nodes.len());
            nodes.push(*r);
            queue.push_back(nodes.len() - 1);
        }
    }
    while let Some(i) = queue.pop_front() {
        let inst = nodes[i];
        let did = inst.def_id();
        let walkable = matches!(inst.def, InstanceKind::Item(_) | InstanceKind::ClosureOnceShim { .. } | InstanceKind::ReifyShim(..));
        if !walkable || !tcx.is_mir_available(did) {
            if walkable {
                *no_mir.entry(cpath(tcx, did)).or_insert(0) += 1;
            }
            continue;
        }
        if matches!(tcx.def_kind(did), DefKind::Ctor(..)) {
            continue;
        }
        let body = tcx.instance_mir(inst.def);
        let poly = inst.args.has_param();
        let env = if poly { ty::TypingEnv::post_analysis(tcx, did) } else { ty::TypingEnv::fully_monomorphized() };
        for bb in body.basic_blocks.iter() {
            if bb.is_cleanup {
                continue;
            }
            let term = bb.terminator();
            let (func, _is_tail) = match &term.kind {
                TerminatorKind::Call { func, .. } => (func, false),
                TerminatorKind::TailCall { func, .. } => (func, true),
                _ => continue,
            };
            let fty = func.ty(&body.local_decls, tcx);
            let fty = if poly {
                fty
            } else {
                match inst.try_instantiate_mir_and_normalize_erasing_regions(tcx, env, ty::EarlyBinder::bind(fty)) {
                    Ok(t) => t,
                    Err(_) => {
                        *unresolved.entry(format!("normalisation failed in {}", cpath(tcx, did))).or_insert(0) += 1;
                        continue;
                    }
                }
            };
            let (cdid, cargs) = match fty.kind() {
                ty::FnDef(d, a) => (*d, *a),
                _ => {
                    *unresolved.entry("<fn pointer / dyn call>".to_string()).or_insert(0) += 1;
                    continue;
                }
            };
            if tcx.intrinsic(cdid).is_some() {
                continue;
            }
            match Instance::try_resolve(tcx, env, cdid, cargs) {
                Ok(Some(callee)) => {
                    match callee.def {
                        InstanceKind::Virtual(..) => {
                            *virtuals.entry(cpath(tcx, cdid)).or_insert(0) += 1;
                            continue;
                        }
                        InstanceKind::Intrinsic(_) => continue,
                        _ => {}
                    }
                    let j = match index.get(&callee) {
                        Some(j) => *j,
                        None => {
                            if nodes.len() >= MAX_NODES {
                                truncated = true;
                                continue;
                            }
                            index.insert(callee, nodes.len());
                            nodes.push(callee);
                            queue.push_back(nodes.len() - 1);
                            nodes.len() - 1
                        }
                    };
                    edges.push((i, j));
                }
                _ => {
                    *unresolved.entry(cpath(tcx, cdid)).or_insert(0) += 1;
                }
            }
        }
    }

    // project: local nodes + local->local edges (through foreign intermediates)
    let is_local = |k: usize| nodes[k].def_id().krate == LOCAL_CRATE;
    let mut adj: Vec<Vec<usize>> = vec![Vec::new(); nodes.len()];
    for (a, b) in edges.iter() {
        adj[*a].push(*b);
    }
    let mut local_edges: Vec<J> = Vec::new();
    let mut foreign_direct: HashMap<(usize, String), ()> = HashMap::new();
    for a in 0..nodes.len() {
        if !is_local(a) {
            continue;
        }
        // BFS through foreign nodes
        let mut seen = vec![a];
        let mut st = vec![a];
        let mut targets: Vec<(usize, bool)> = Vec::new();
        while let Some(x) = st.pop() {
            for &y in adj[x].iter() {
                if seen.contains(&y) && y != a {
                    continue;
                }
                if is_local(y) {
                    if !targets.iter().any(|t| t.0 == y) {
                        targets.push((y, x != a));
                    }
                } else {
                    if x == a {
                        foreign_direct.insert((a, cpath(tcx, nodes[y].def_id())), ());
                    }
                    if !seen.contains(&y) {
                        seen.push(y);
                        if seen.len() < 4000 {
                            st.push(y);
                        }
                    }
                }
            }
        }
        for (t, via) in targets {
            local_edges.push(J::Arr(vec![J::n(a), J::n(t), J::Bool(via)]));
        }
    }
    let mut node_js = Vec::new();
    for (k, n) in nodes.iter().enumerate() {
        if !is_local(k) {
            node_js.push(J::Null);
            continue;
        }
        node_js.push(obj! {
            "path": J::s(cpath(tcx, n.def_id())),
            "args": if n.args.is_empty() { J::Null } else { J::s(ty::print::with_crate_prefix!(ty::print::with_no_trimmed_paths!(format!("{:?}", n.args)))) },
            "kind": J::s(format!("{:?}", n.def).split('(').next().unwrap_or("").to_string()),
        });
    }
    let to_arr = |m: HashMap<String, usize>| {
        let mut v: Vec<(String, usize)> = m.into_iter().collect();
        v.sort();
        J::Arr(v.into_iter().map(|(k, c)| J::Arr(vec![J::s(k), J::n(c)])).collect())
    };
    let mut fd: Vec<(usize, String)> = foreign_direct.into_keys().collect();
    fd.sort();
    obj! {
        "roots": J::Arr(root_names),
        "missing_roots": J::Arr(missing),
        "n_instances": J::n(nodes.len()),
        "n_local": J::n((0..nodes.len()).filter(|k| is_local(*k)).count()),
        "truncated": J::Bool(truncated),
        "nodes": J::Arr(node_js),
        "edges": J::Arr(local_edges),
        "foreign_direct": J::Arr(fd.into_iter().map(|(a, p)| J::Arr(vec![J::n(a), J::s(p)])).collect()),
        "unresolved": to_arr(unresolved),
        "virtual": to_arr(virtuals),
        "no_mir": to_arr(no_mir),
    }
}
