//! Instantiated (monomorphic) call graph from configured roots.
use crate::json::J;
use rustc_middle::ty::TyCtxt;

pub fn collect<'tcx>(_tcx: TyCtxt<'tcx>) -> J {
    J::Null
}
