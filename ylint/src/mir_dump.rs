//! MIR -> JSON facts: CFG, assignments, calls with resolved callees, asserts.
use crate::json::J;
use crate::{line_of, obj};
use rustc_hir::def::DefKind;
use rustc_middle::mir::{
    AggregateKind, AssertKind, BasicBlock, Body, Operand, Place, PlaceElem, ProjectionElem,
    Rvalue, StatementKind, TerminatorKind, UnwindAction, VarDebugInfoContents,
};
use rustc_middle::mir::PlaceTy;
use rustc_middle::ty::{self, Ty, TyCtxt};
use rustc_span::def_id::{DefId, LocalDefId, LOCAL_CRATE};

pub fn ty_str<'tcx>(ty: Ty<'tcx>) -> String {
    ty::print::with_crate_prefix!(ty::print::with_no_trimmed_paths!(format!("{}", ty)))
}

pub fn path_str(tcx: TyCtxt<'_>, did: DefId) -> String {
    ty::print::with_crate_prefix!(ty::print::with_no_trimmed_paths!(tcx.def_path_str(did)))
}

/// Absolute definition path (crate name + DefPath), independent of re-exports and of the crate it is printed from.
pub fn abs_path(tcx: TyCtxt<'_>, did: DefId) -> String {
    format!("{}{}", tcx.crate_name(did.krate), tcx.def_path(did).to_string_no_crate_verbose())
}

/// Canonical, module-location independent name of a function-like definition:
/// inherent methods `Type::name`, trait impl methods `<Self as Trait>::name`,
/// closures / nested fns `<canonical parent>::{closure#n}`.
pub fn cpath(tcx: TyCtxt<'_>, did: DefId) -> String {
    use rustc_middle::ty::print::PrintTraitRefExt;
    match tcx.def_kind(did) {
        DefKind::Closure | DefKind::InlineConst | DefKind::AnonConst => {
            let p = tcx.parent(did);
            let pp = path_str(tcx, p);
            let me = path_str(tcx, did);
            let suffix = me.strip_prefix(pp.as_str()).map(|s| s.to_string()).unwrap_or_else(|| "::{closure}".to_string());
            format!("{}{}", cpath(tcx, p), suffix)
        }
        DefKind::AssocFn | DefKind::AssocConst { .. } | DefKind::AssocTy => {
            if let Some(imp) = tcx.impl_of_assoc(did) {
                let self_ty = tcx.type_of(imp).instantiate_identity().skip_norm_wip();
                let name = tcx.item_name(did);
                if tcx.impl_is_of_trait(imp) {
                    let tref = tcx.impl_trait_ref(imp).instantiate_identity().skip_norm_wip();
                    let tp = ty::print::with_crate_prefix!(ty::print::with_no_trimmed_paths!(format!("{}", tref.print_only_trait_path())));
                    format!("<{} as {}>::{}", ty_str(self_ty), tp, name)
                } else {
                    match self_ty.kind() {
                        ty::Adt(adt, _) => format!("{}::{}", path_str(tcx, adt.did()), name),
                        _ => format!("<{}>::{}", ty_str(self_ty), name),
                    }
                }
            } else {
                path_str(tcx, did)
            }
        }
        DefKind::Fn => {
            let p = tcx.parent(did);
            match tcx.def_kind(p) {
                DefKind::Fn | DefKind::AssocFn | DefKind::Closure => {
                    format!("{}::{}", cpath(tcx, p), tcx.item_name(did))
                }
                _ => path_str(tcx, did),
            }
        }
        _ => path_str(tcx, did),
    }
}

fn field_name<'tcx>(tcx: TyCtxt<'tcx>, pt: PlaceTy<'tcx>, f: rustc_abi::FieldIdx) -> String {
    match pt.ty.kind() {
        ty::Adt(adt, _) => {
            if adt.is_enum() {
                if let Some(v) = pt.variant_index {
                    let var = adt.variant(v);
                    return format!(
                        "{}::{}.{}",
                        path_str(tcx, adt.did()),
                        var.name,
                        var.fields[f].name
                    );
                }
                format!("{}.?{}", path_str(tcx, adt.did()), f.as_usize())
            } else {
                let var = adt.non_enum_variant();
                format!("{}.{}", path_str(tcx, adt.did()), var.fields[f].name)
            }
        }
        ty::Tuple(_) => format!("tuple.{}", f.as_usize()),
        ty::Closure(..) => format!("upvar.{}", f.as_usize()),
        ty::Coroutine(..) | ty::CoroutineClosure(..) => format!("coroutine.{}", f.as_usize()),
        _ => format!("?.{}", f.as_usize()),
    }
}

pub fn place_j<'tcx>(tcx: TyCtxt<'tcx>, body: &Body<'tcx>, p: &Place<'tcx>) -> J {
    let mut proj = Vec::new();
    let mut pt = PlaceTy::from_ty(body.local_decls[p.local].ty);
    for elem in p.projection.iter() {
        let e: PlaceElem<'tcx> = elem;
        match e {
            ProjectionElem::Deref => proj.push(J::s("*")),
            ProjectionElem::Field(f, _) => proj.push(J::s(field_name(tcx, pt, f))),
            ProjectionElem::Index(l) => proj.push(obj! {"idx": J::n(l.as_usize())}),
            ProjectionElem::ConstantIndex { offset, from_end, .. } => {
                proj.push(obj! {"cidx": J::n(offset), "from_end": J::Bool(from_end)})
            }
            ProjectionElem::Subslice { .. } => proj.push(J::s("[..]")),
            ProjectionElem::Downcast(name, _) => proj.push(obj! {
                "as": J::s(name.map(|n| n.to_string()).unwrap_or_default())
            }),
            ProjectionElem::OpaqueCast(_) => proj.push(J::s("opaque")),
            ProjectionElem::UnwrapUnsafeBinder(_) => proj.push(J::s("unbind")),
        }
        pt = pt.projection_ty(tcx, e);
    }
    if proj.is_empty() {
        J::n(p.local.as_usize())
    } else {
        obj! {"l": J::n(p.local.as_usize()), "p": J::Arr(proj)}
    }
}

pub fn place_ty_str<'tcx>(tcx: TyCtxt<'tcx>, body: &Body<'tcx>, p: &Place<'tcx>) -> String {
    ty_str(p.ty(&body.local_decls, tcx).ty)
}

fn const_j<'tcx>(tcx: TyCtxt<'tcx>, owner: DefId, c: &rustc_middle::mir::ConstOperand<'tcx>) -> J {
    let ty = c.const_.ty();
    if let ty::FnDef(did, _) = ty.kind() {
        return obj! {"fn": J::s(cpath(tcx, *did))};
    }
    // try to evaluate scalar integer constants (also named consts such as HAS_ORIGIN)
    let env = ty::TypingEnv::post_analysis(tcx, owner);
    let mut val = J::Null;
    if ty.is_integral() || ty.is_bool() || ty.is_char() {
        if let Some(si) = c.const_.try_eval_scalar_int(tcx, env) {
            let size = si.size();
            let bits = si.to_bits(size);
            if ty.is_signed() {
                let v = size.sign_extend(bits) as i128;
                val = J::Num(v);
            } else {
                val = J::Num(bits as i128);
            }
        }
    }
    let named = match c.const_ {
        rustc_middle::mir::Const::Unevaluated(uv, _) => {
            if matches!(tcx.def_kind(uv.def), DefKind::Const { .. } | DefKind::AssocConst { .. }) {
                J::s(path_str(tcx, uv.def))
            } else {
                J::Null
            }
        }
        _ => J::Null,
    };
    let text = if matches!(val, J::Null) {
        let s = ty::print::with_crate_prefix!(ty::print::with_no_trimmed_paths!(format!("{}", c.const_)));
        let s = if s.len() > 120 { format!("{}…", &s[..s.char_indices().take(117).last().map(|x| x.0).unwrap_or(0)]) } else { s };
        J::s(s)
    } else {
        J::Null
    };
    obj! {"k": val, "named": named, "text": text, "ty": J::s(ty_str(ty))}
}

pub fn operand_j<'tcx>(tcx: TyCtxt<'tcx>, owner: DefId, body: &Body<'tcx>, op: &Operand<'tcx>) -> J {
    match op {
        Operand::Copy(p) => obj! {"c": place_j(tcx, body, p)},
        Operand::Move(p) => obj! {"m": place_j(tcx, body, p)},
        Operand::Constant(c) => const_j(tcx, owner, c),
        other => obj! {"other": J::s(format!("{:?}", other))},
    }
}

fn rvalue_j<'tcx>(tcx: TyCtxt<'tcx>, owner: DefId, body: &Body<'tcx>, rv: &Rvalue<'tcx>) -> J {
    let op = |o: &Operand<'tcx>| operand_j(tcx, owner, body, o);
    match rv {
        Rvalue::Use(o, ..) => obj! {"use": op(o)},
        Rvalue::Repeat(o, _) => obj! {"repeat": op(o)},
        Rvalue::Ref(_, bk, p) => obj! {
            "ref": place_j(tcx, body, p),
            "mut": J::Bool(matches!(bk, rustc_middle::mir::BorrowKind::Mut { .. }))
        },
        Rvalue::RawPtr(k, p) => obj! {
            "rawptr": place_j(tcx, body, p),
            "mut": J::Bool(matches!(k, rustc_middle::mir::RawPtrKind::Mut))
        },
        Rvalue::Cast(kind, o, ty) => obj! {
            "cast": op(o),
            "kind": J::s(format!("{:?}", kind)),
            "ty": J::s(ty_str(*ty)),
            "from": J::s(ty_str(o.ty(&body.local_decls, tcx)))
        },
        Rvalue::BinaryOp(bop, ab) => obj! {
            "bin": J::s(format!("{:?}", bop)),
            "a": op(&ab.0),
            "b": op(&ab.1),
            "ty": J::s(ty_str(ab.0.ty(&body.local_decls, tcx)))
        },
        Rvalue::UnaryOp(uop, o) => obj! {"un": J::s(format!("{:?}", uop)), "a": op(o)},
        Rvalue::Discriminant(p) => obj! {
            "discr": place_j(tcx, body, p),
            "ty": J::s(place_ty_str(tcx, body, p))
        },
        Rvalue::Aggregate(kind, ops) => {
            let k = match &**kind {
                AggregateKind::Array(_) => obj! {"kind": J::s("array")},
                AggregateKind::Tuple => obj! {"kind": J::s("tuple")},
                AggregateKind::Adt(did, vidx, _, _, _) => {
                    let adt = tcx.adt_def(*did);
                    let var = adt.variant(*vidx);
                    let fields: Vec<J> = var.fields.iter().map(|f| J::s(f.name.to_string())).collect();
                    obj! {
                        "kind": J::s("adt"),
                        "adt": J::s(path_str(tcx, *did)),
                        "variant": if adt.is_enum() { J::s(var.name.to_string()) } else { J::Null },
                        "fields": J::Arr(fields)
                    }
                }
                AggregateKind::Closure(did, _) => obj! {"kind": J::s("closure"), "def": J::s(cpath(tcx, *did))},
                AggregateKind::Coroutine(did, _) => obj! {"kind": J::s("coroutine"), "def": J::s(cpath(tcx, *did))},
                AggregateKind::CoroutineClosure(did, _) => obj! {"kind": J::s("coroutine_closure"), "def": J::s(cpath(tcx, *did))},
                AggregateKind::RawPtr(..) => obj! {"kind": J::s("rawptr")},
            };
            obj! {"agg": k, "ops": J::Arr(ops.iter().map(|o| op(o)).collect())}
        }
        Rvalue::CopyForDeref(p) => obj! {"use": obj!{"c": place_j(tcx, body, p)}},
        Rvalue::ThreadLocalRef(d) => obj! {"tls": J::s(path_str(tcx, *d))},
        other => obj! {"other": J::s(format!("{:?}", other))},
    }
}

fn callee_j<'tcx>(tcx: TyCtxt<'tcx>, owner: DefId, body: &Body<'tcx>, func: &Operand<'tcx>) -> J {
    if let Some((cdid, cargs)) = func.const_fn_def() {
        let declared = cpath(tcx, cdid);
        let gargs = ty::print::with_crate_prefix!(ty::print::with_no_trimmed_paths!(format!("{:?}", cargs)));
        let trait_did = tcx.trait_of_assoc(cdid);
        let mut resolved = J::Null;
        let mut resolved_did = cdid;
        let mut virt = false;
        let mut res_kind = J::Null;
        let env = ty::TypingEnv::post_analysis(tcx, owner);
        if let Ok(Some(inst)) = ty::Instance::try_resolve(tcx, env, cdid, cargs) {
            match inst.def {
                ty::InstanceKind::Virtual(..) => {
                    virt = true;
                }
                ty::InstanceKind::Item(d) => {
                    resolved_did = d;
                    if d != cdid || trait_did.is_none() {
                        resolved = J::s(cpath(tcx, d));
                    } else if trait_did.is_some() {
                        // resolved to the trait's own default body with a concrete Self
                        let concrete = !cargs.iter().any(|a| a.has_param());
                        if concrete {
                            resolved = J::s(cpath(tcx, d));
                            res_kind = J::s("default-body");
                        }
                    }
                }
                ty::InstanceKind::ClosureOnceShim { call_once: _, .. } => {
                    res_kind = J::s("closure-once-shim");
                    if let Some(a0) = cargs.get(0).and_then(|a| a.as_type()) {
                        if let ty::Closure(cd, _) = a0.kind() {
                            resolved = J::s(cpath(tcx, *cd));
                        }
                    }
                }
                other => {
                    res_kind = J::s(format!("{:?}", other).split('(').next().unwrap_or("").to_string());
                    let d = other.def_id();
                    if d != cdid {
                        resolved = J::s(cpath(tcx, d));
                    }
                }
            }
        }
        use rustc_middle::ty::TypeVisitableExt;
        let self_ty = if trait_did.is_some() {
            cargs.get(0).and_then(|a| a.as_type()).map(|t| J::s(ty_str(t))).unwrap_or(J::Null)
        } else {
            J::Null
        };
        let _ = body;
        obj! {
            "callee": J::s(declared),
            "resolved": resolved,
            "dp": J::s(abs_path(tcx, resolved_did)),
            "res_kind": res_kind,
            "trait": trait_did.map(|t| J::s(path_str(tcx, t))).unwrap_or(J::Null),
            "self_ty": self_ty,
            "gargs": if cargs.is_empty() { J::Null } else { J::s(gargs) },
            "virtual": if virt { J::Bool(true) } else { J::Null },
            "krate": J::s(tcx.crate_name(cdid.krate).to_string()),
            "local": if cdid.krate == LOCAL_CRATE { J::Bool(true) } else { J::Null },
        }
    } else {
        obj! {"fn_op": operand_j(tcx, owner, body, func), "fn_ty": J::s(ty_str(func.ty(&body.local_decls, tcx)))}
    }
}

fn bb_j(b: BasicBlock) -> J {
    J::n(b.as_usize())
}

pub fn mir_facts<'tcx>(tcx: TyCtxt<'tcx>, ldid: LocalDefId) -> J {
    let did = ldid.to_def_id();
    if !tcx.is_mir_available(did) {
        return J::Null;
    }
    let body: &Body<'tcx> = tcx.optimized_mir(did);
    let mut names: Vec<Option<String>> = vec![None; body.local_decls.len()];
    for vdi in body.var_debug_info.iter() {
        if let VarDebugInfoContents::Place(p) = &vdi.value {
            if p.projection.is_empty() && vdi.composite.is_none() {
                names[p.local.as_usize()] = Some(vdi.name.to_string());
            } else if names[p.local.as_usize()].is_none() {
                // captured upvars etc: `(*_1).0` — remember as alias text
            }
        }
    }
    let mut locals = Vec::new();
    for (l, decl) in body.local_decls.iter_enumerated() {
        locals.push(obj! {
            "ty": J::s(ty_str(decl.ty)),
            "name": names[l.as_usize()].clone().map(J::s).unwrap_or(J::Null),
        });
    }
    // upvar debug names: var_debug_info entries whose place is a projection of _1
    let mut upvars = Vec::new();
    for vdi in body.var_debug_info.iter() {
        if let VarDebugInfoContents::Place(p) = &vdi.value {
            if !p.projection.is_empty() {
                upvars.push(obj! {"name": J::s(vdi.name.to_string()), "place": place_j(tcx, body, p)});
            }
        }
    }
    let mut blocks = Vec::new();
    for (_bb, data) in body.basic_blocks.iter_enumerated() {
        let mut stmts = Vec::new();
        for st in data.statements.iter() {
            let line = line_of(tcx, st.source_info.span);
            match &st.kind {
                StatementKind::Assign(bx) => {
                    let (p, rv) = &**bx;
                    stmts.push(obj! {
                        "dst": place_j(tcx, body, p),
                        "rv": rvalue_j(tcx, did, body, rv),
                        "line": J::n(line),
                        "exp": if st.source_info.span.from_expansion() { J::Bool(true) } else { J::Null },
                    });
                }
                StatementKind::SetDiscriminant { place, variant_index } => {
                    stmts.push(obj! {
                        "dst": place_j(tcx, body, place),
                        "rv": obj!{"setdiscr": J::n(variant_index.as_usize())},
                        "line": J::n(line),
                    });
                }
                StatementKind::Intrinsic(i) => {
                    stmts.push(obj! {"intrinsic": J::s(format!("{:?}", i)), "line": J::n(line)});
                }
                _ => {}
            }
        }
        let term = data.terminator();
        let tline = line_of(tcx, term.source_info.span);
        let texp = term.source_info.span.from_expansion();
        let t = match &term.kind {
            TerminatorKind::Goto { target } => obj! {"goto": bb_j(*target)},
            TerminatorKind::SwitchInt { discr, targets } => {
                let mut ts = Vec::new();
                for (v, t) in targets.iter() {
                    ts.push(J::Arr(vec![J::Num(v as i128), bb_j(t)]));
                }
                obj! {
                    "switch": operand_j(tcx, did, body, discr),
                    "ty": J::s(ty_str(discr.ty(&body.local_decls, tcx))),
                    "targets": J::Arr(ts),
                    "otherwise": bb_j(targets.otherwise()),
                }
            }
            TerminatorKind::Return => obj! {"ret": J::Bool(true)},
            TerminatorKind::Unreachable => obj! {"unreachable": J::Bool(true)},
            TerminatorKind::UnwindResume => obj! {"resume": J::Bool(true)},
            TerminatorKind::UnwindTerminate(_) => obj! {"abort": J::Bool(true)},
            TerminatorKind::Drop { place, target, .. } => obj! {
                "drop": place_j(tcx, body, place),
                "ty": J::s(place_ty_str(tcx, body, place)),
                "target": bb_j(*target),
            },
            TerminatorKind::Call { func, args, destination, target, unwind, .. } => {
                let a: Vec<J> = args.iter().map(|s| operand_j(tcx, did, body, &s.node)).collect();
                let aty: Vec<J> = args.iter().map(|s| J::s(ty_str(s.node.ty(&body.local_decls, tcx)))).collect();
                obj! {
                    "call": callee_j(tcx, did, body, func),
                    "args": J::Arr(a),
                    "arg_tys": J::Arr(aty),
                    "dest": place_j(tcx, body, destination),
                    "dest_ty": J::s(place_ty_str(tcx, body, destination)),
                    "target": target.map(bb_j).unwrap_or(J::Null),
                    "unwind": match unwind { UnwindAction::Cleanup(b) => bb_j(*b), _ => J::Null },
                }
            }
            TerminatorKind::TailCall { func, args, .. } => {
                let a: Vec<J> = args.iter().map(|s| operand_j(tcx, did, body, &s.node)).collect();
                obj! {"call": callee_j(tcx, did, body, func), "args": J::Arr(a), "tail": J::Bool(true)}
            }
            TerminatorKind::Assert { cond, expected, msg, target, .. } => {
                let op = |o: &Operand<'tcx>| operand_j(tcx, did, body, o);
                let (k, ops) = match &**msg {
                    AssertKind::BoundsCheck { len, index } => ("BoundsCheck".to_string(), vec![op(len), op(index)]),
                    AssertKind::Overflow(b, l, r) => (format!("Overflow({:?})", b), vec![op(l), op(r)]),
                    AssertKind::OverflowNeg(o) => ("OverflowNeg".to_string(), vec![op(o)]),
                    AssertKind::DivisionByZero(o) => ("DivisionByZero".to_string(), vec![op(o)]),
                    AssertKind::RemainderByZero(o) => ("RemainderByZero".to_string(), vec![op(o)]),
                    AssertKind::MisalignedPointerDereference { .. } => ("MisalignedPointerDereference".to_string(), vec![]),
                    AssertKind::NullPointerDereference => ("NullPointerDereference".to_string(), vec![]),
                    AssertKind::InvalidEnumConstruction(_) => ("InvalidEnumConstruction".to_string(), vec![]),
                    other => (format!("{:?}", other), vec![]),
                };
                obj! {
                    "assert": J::s(k),
                    "ops": J::Arr(ops),
                    "cond": op(cond),
                    "expected": J::Bool(*expected),
                    "target": bb_j(*target),
                }
            }
            TerminatorKind::FalseEdge { real_target, .. } => obj! {"goto": bb_j(*real_target)},
            TerminatorKind::FalseUnwind { real_target, .. } => obj! {"goto": bb_j(*real_target)},
            TerminatorKind::Yield { resume, .. } => obj! {"yield": bb_j(*resume)},
            TerminatorKind::CoroutineDrop => obj! {"ret": J::Bool(true), "coroutine_drop": J::Bool(true)},
            TerminatorKind::InlineAsm { .. } => obj! {"asm": J::Bool(true)},
        };
        let mut tv = match t {
            J::Obj(v) => v,
            _ => unreachable!(),
        };
        tv.push(("line", J::n(tline)));
        if texp {
            tv.push(("exp", J::Bool(true)));
        }
        blocks.push(obj! {
            "s": J::Arr(stmts),
            "t": J::Obj(tv),
            "cleanup": if data.is_cleanup { J::Bool(true) } else { J::Null },
        });
    }
    obj! {
        "argc": J::n(body.arg_count),
        "locals": J::Arr(locals),
        "upvars": if upvars.is_empty() { J::Null } else { J::Arr(upvars) },
        "blocks": J::Arr(blocks),
    }
}

/// enum path -> [[discr value, variant name]...] for local enums plus Option/Result.
pub fn enum_table<'tcx>(tcx: TyCtxt<'tcx>) -> J {
    let mut out = Vec::new();
    let mut add = |did: DefId| {
        let adt = tcx.adt_def(did);
        if !adt.is_enum() {
            return;
        }
        let mut vs = Vec::new();
        for (vidx, d) in adt.discriminants(tcx) {
            let var = adt.variant(vidx);
            let fields: Vec<J> = var.fields.iter().map(|f| J::s(f.name.to_string())).collect();
            vs.push(J::Arr(vec![J::Num(d.val as i128), J::s(var.name.to_string()), J::Arr(fields)]));
        }
        out.push(obj! {"path": J::s(path_str(tcx, did)), "variants": J::Arr(vs)});
    };
    for id in tcx.hir_crate_items(()).definitions() {
        let did = id.to_def_id();
        if tcx.def_kind(did) == DefKind::Enum {
            add(did);
        }
    }
    if let Some(d) = tcx.lang_items().option_type() {
        add(d);
    }
    if let Some(d) = tcx.get_diagnostic_item(rustc_span::sym::Result) {
        add(d);
    }
    J::Arr(out)
}

/// struct path -> field names and types (local structs).
pub fn struct_table<'tcx>(tcx: TyCtxt<'tcx>) -> J {
    let mut out = Vec::new();
    for id in tcx.hir_crate_items(()).definitions() {
        let did = id.to_def_id();
        if tcx.def_kind(did) == DefKind::Struct {
            let adt = tcx.adt_def(did);
            let var = adt.non_enum_variant();
            let fields: Vec<J> = var
                .fields
                .iter()
                .map(|f| {
                    J::Arr(vec![
                        J::s(f.name.to_string()),
                        J::s(ty_str(tcx.type_of(f.did).instantiate_identity().skip_norm_wip())),
                    ])
                })
                .collect();
            out.push(obj! {
                "path": J::s(path_str(tcx, did)),
                "fields": J::Arr(fields),
                "repr_c": J::Bool(adt.repr().c()),
                "transparent": J::Bool(adt.repr().transparent()),
            });
        }
    }
    J::Arr(out)
}
