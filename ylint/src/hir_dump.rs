//! HIR -> JSON facts: resolved expression trees, signatures, const/impl tables.
use crate::json::J;
use crate::mir_dump::{cpath, path_str, ty_str};
use crate::{line_of, obj};
use rustc_hir as hir;
use rustc_hir::def::{DefKind, Res};
use rustc_middle::ty::{self, Ty, TyCtxt, TypeckResults};
use rustc_middle::ty::print::PrintTraitRefExt;
use rustc_span::def_id::{DefId, LocalDefId};

struct Cx<'tcx> {
    tcx: TyCtxt<'tcx>,
    owner: DefId,
    tr: &'tcx TypeckResults<'tcx>,
}

fn scalar_to_j<'tcx>(ty: Ty<'tcx>, si: ty::ScalarInt) -> J {
    let size = si.size();
    let bits = si.to_bits(size);
    if ty.is_signed() {
        J::Num(size.sign_extend(bits) as i128)
    } else {
        J::Num(bits as i128)
    }
}

pub fn const_value<'tcx>(tcx: TyCtxt<'tcx>, did: DefId) -> J {
    let ty = tcx.type_of(did).instantiate_identity().skip_norm_wip();
    if !(ty.is_integral() || ty.is_bool() || ty.is_char()) {
        return J::Null;
    }
    match tcx.const_eval_poly(did) {
        Ok(v) => match v.try_to_scalar_int() {
            Some(si) => scalar_to_j(ty, si),
            None => J::Null,
        },
        Err(_) => J::Null,
    }
}

pub fn const_table<'tcx>(tcx: TyCtxt<'tcx>) -> J {
    let mut out = Vec::new();
    for id in tcx.hir_crate_items(()).definitions() {
        let did = id.to_def_id();
        let k = tcx.def_kind(did);
        if matches!(k, DefKind::Const { .. } | DefKind::AssocConst { .. }) {
            if tcx.generics_of(did).parent_count + tcx.generics_of(did).own_params.len() > 0 {
                continue;
            }
            let v = const_value(tcx, did);
            if matches!(v, J::Null) {
                continue;
            }
            let ty = tcx.type_of(did).instantiate_identity().skip_norm_wip();
            out.push(obj! {"path": J::s(path_str(tcx, did)), "v": v, "ty": J::s(ty_str(ty)),
                "line": J::n(line_of(tcx, tcx.def_span(did)))});
        }
    }
    J::Arr(out)
}

pub fn impl_table<'tcx>(tcx: TyCtxt<'tcx>) -> J {
    let mut out = Vec::new();
    for id in tcx.hir_crate_items(()).definitions() {
        let did = id.to_def_id();
        if let DefKind::Impl { of_trait } = tcx.def_kind(did) {
            let self_ty = tcx.type_of(did).instantiate_identity().skip_norm_wip();
            let tr = if of_trait {
                let tref = tcx.impl_trait_ref(did).instantiate_identity().skip_norm_wip();
                J::s(ty::print::with_crate_prefix!(ty::print::with_no_trimmed_paths!(format!("{}", tref.print_only_trait_path()))))
            } else {
                J::Null
            };
            let trait_def = if of_trait {
                let tref = tcx.impl_trait_ref(did).instantiate_identity().skip_norm_wip();
                J::s(path_str(tcx, tref.def_id))
            } else {
                J::Null
            };
            let mut items = Vec::new();
            for it in tcx.associated_items(did).in_definition_order() {
                if matches!(it.kind, ty::AssocKind::Fn { .. }) {
                    items.push(J::Arr(vec![J::s(it.name().to_string()), J::s(cpath(tcx, it.def_id))]));
                }
            }
            out.push(obj! {
                "self_ty": J::s(ty_str(self_ty)),
                "trait": tr,
                "trait_def": trait_def,
                "generic": J::Bool(tcx.generics_of(did).own_params.iter().any(|p| !matches!(p.kind, ty::GenericParamDefKind::Lifetime))),
                "fns": J::Arr(items),
                "line": J::n(line_of(tcx, tcx.def_span(did))),
            });
        }
    }
    J::Arr(out)
}

/// Structured type (for ABI comparison with the C header).
pub fn ty_j<'tcx>(tcx: TyCtxt<'tcx>, t: Ty<'tcx>, depth: usize) -> J {
    if depth > 6 {
        return obj! {"k": J::s("deep"), "s": J::s(ty_str(t))};
    }
    match t.kind() {
        ty::Bool => obj! {"k": J::s("bool")},
        ty::Char => obj! {"k": J::s("char32")},
        ty::Int(i) => obj! {"k": J::s("int"), "n": J::s(i.name_str())},
        ty::Uint(u) => obj! {"k": J::s("int"), "n": J::s(u.name_str())},
        ty::Float(f) => obj! {"k": J::s("float"), "n": J::s(f.name_str())},
        ty::RawPtr(inner, m) => obj! {"k": J::s("ptr"), "mut": J::Bool(m.is_mut()), "to": ty_j(tcx, *inner, depth + 1)},
        ty::Ref(_, inner, m) => obj! {"k": J::s("ref"), "mut": J::Bool(m.is_mut()), "to": ty_j(tcx, *inner, depth + 1)},
        ty::Adt(adt, args) => {
            // Option<extern fn> and Option<&T> are nullable pointers in C
            let p = path_str(tcx, adt.did());
            let targs: Vec<J> = args.types().map(|a| ty_j(tcx, a, depth + 1)).collect();
            obj! {
                "k": J::s("adt"),
                "path": J::s(p),
                "name": J::s(tcx.item_name(adt.did()).to_string()),
                "repr_c": J::Bool(adt.repr().c()),
                "transparent": J::Bool(adt.repr().transparent()),
                "adt_kind": J::s(if adt.is_enum() {"enum"} else if adt.is_union() {"union"} else {"struct"}),
                "targs": if targs.is_empty() { J::Null } else { J::Arr(targs) },
            }
        }
        ty::FnPtr(sig_tys, hdr) => {
            let sig = sig_tys.skip_binder();
            let ins: Vec<J> = sig.inputs().iter().map(|a| ty_j(tcx, *a, depth + 1)).collect();
            obj! {
                "k": J::s("fnptr"),
                "abi": J::s(format!("{:?}", hdr.abi())),
                "inputs": J::Arr(ins),
                "output": ty_j(tcx, sig.output(), depth + 1),
            }
        }
        ty::Tuple(ts) if ts.is_empty() => obj! {"k": J::s("unit")},
        ty::Never => obj! {"k": J::s("never")},
        _ => obj! {"k": J::s("other"), "s": J::s(ty_str(t))},
    }
}

pub fn sig_facts<'tcx>(tcx: TyCtxt<'tcx>, did: DefId) -> J {
    let sig = tcx.fn_sig(did).instantiate_identity().skip_norm_wip().skip_binder();
    let inputs: Vec<J> = sig.inputs().iter().map(|t| J::s(ty_str(*t))).collect();
    let inputs_j: Vec<J> = sig.inputs().iter().map(|t| ty_j(tcx, *t, 0)).collect();
    let attrs = tcx.codegen_fn_attrs(did);
    let no_mangle = attrs.flags.contains(rustc_middle::middle::codegen_fn_attrs::CodegenFnAttrFlags::NO_MANGLE);
    let vis = match tcx.visibility(did) {
        ty::Visibility::Public => "pub".to_string(),
        ty::Visibility::Restricted(m) => {
            if m.is_crate_root() { "crate".to_string() } else { format!("in {}", path_str(tcx, m)) }
        }
    };
    let generics = tcx.generics_of(did);
    let mut gnames = Vec::new();
    let mut g = Some(generics);
    let mut all = Vec::new();
    while let Some(gg) = g {
        for p in gg.own_params.iter() {
            if !matches!(p.kind, ty::GenericParamDefKind::Lifetime) {
                all.push((p.index, p.name.to_string()));
            }
        }
        g = gg.parent.map(|p| tcx.generics_of(p));
    }
    all.sort();
    for (_, n) in all {
        gnames.push(J::s(n));
    }
    let mut params = Vec::new();
    if let Some(l) = did.as_local() {
        let body = tcx.hir_body_owned_by(l);
        for p in body.params.iter() {
            params.push(match p.pat.kind {
                hir::PatKind::Binding(_, _, id, _) => J::s(id.name.to_string()),
                _ => J::s("_"),
            });
        }
    }
    let assoc = tcx.opt_associated_item(did);
    let container = assoc.map(|a| match a.container {
        ty::AssocContainer::Trait => "trait",
        ty::AssocContainer::InherentImpl => "inherent",
        ty::AssocContainer::TraitImpl(_) => "trait_impl",
    });
    let impl_self = tcx
        .impl_of_assoc(did)
        .map(|i| J::s(ty_str(tcx.type_of(i).instantiate_identity().skip_norm_wip())))
        .unwrap_or(J::Null);
    let trait_item = tcx.trait_item_of(did).map(|t| J::s(cpath(tcx, t))).unwrap_or(J::Null);
    obj! {
        "inputs": J::Arr(inputs),
        "inputs_j": J::Arr(inputs_j),
        "output": J::s(ty_str(sig.output())),
        "output_j": ty_j(tcx, sig.output(), 0),
        "params": J::Arr(params),
        "abi": J::s(format!("{:?}", sig.abi())),
        "unsafe": J::Bool(sig.safety().is_unsafe()),
        "no_mangle": J::Bool(no_mangle),
        "vis": J::s(vis),
        "generics": J::Arr(gnames),
        "container": container.map(J::s).unwrap_or(J::Null),
        "impl_self": impl_self,
        "trait_item": trait_item,
        "c_variadic": J::Bool(sig.c_variadic()),
    }
}

pub fn hir_facts<'tcx>(tcx: TyCtxt<'tcx>, ldid: LocalDefId) -> J {
    // closures are dumped inline in their parent; skip separate HIR for them
    if tcx.def_kind(ldid.to_def_id()) == DefKind::Closure {
        return J::Null;
    }
    let body = tcx.hir_body_owned_by(ldid);
    let cx = Cx { tcx, owner: ldid.to_def_id(), tr: tcx.typeck(ldid) };
    let params: Vec<J> = body.params.iter().map(|p| cx.pat(p.pat)).collect();
    obj! {"params": J::Arr(params), "body": cx.expr(body.value)}
}

impl<'tcx> Cx<'tcx> {
    fn line(&self, sp: rustc_span::Span) -> J {
        J::n(line_of(self.tcx, sp))
    }

    fn res_j(&self, res: Res, hir_id: hir::HirId) -> Vec<(&'static str, J)> {
        let tcx = self.tcx;
        match res {
            Res::Local(id) => vec![("local", J::s(tcx.hir_name(id).to_string()))],
            Res::Def(kind, did) => {
                let mut v = vec![("def", J::s(path_str(tcx, did))), ("dk", J::s(format!("{:?}", kind)))];
                match kind {
                    DefKind::Const { .. } | DefKind::AssocConst { .. } => {
                        // evaluate with the node's generic args when possible
                        let val = self.const_at(did, hir_id);
                        v.push(("val", val));
                    }
                    DefKind::Ctor(..) => {
                        // name the variant / struct the constructor belongs to
                        let parent = tcx.parent(did);
                        v.push(("ctor_of", J::s(path_str(tcx, parent))));
                    }
                    _ => {}
                }
                v
            }
            Res::SelfCtor(did) => vec![("self_ctor", J::s(path_str(tcx, did)))],
            Res::SelfTyAlias { alias_to, .. } => vec![("self_ty", J::s(path_str(tcx, alias_to)))],
            other => vec![("res", J::s(format!("{:?}", other)))],
        }
    }

    fn const_at(&self, did: DefId, hir_id: hir::HirId) -> J {
        let tcx = self.tcx;
        let args = self.tr.node_args(hir_id);
        let env = ty::TypingEnv::post_analysis(tcx, self.owner);
        use rustc_middle::ty::TypeVisitableExt;
        if args.has_param() {
            // fall back to poly evaluation if the const itself is not generic
            return const_value(tcx, did);
        }
        let ty = tcx.type_of(did).instantiate(tcx, args).skip_norm_wip();
        if !(ty.is_integral() || ty.is_bool() || ty.is_char()) {
            return J::Null;
        }
        match tcx.const_eval_resolve(env, rustc_middle::mir::UnevaluatedConst::new(did, args), rustc_span::DUMMY_SP) {
            Ok(v) => v.try_to_scalar_int().map(|si| scalar_to_j(ty, si)).unwrap_or(J::Null),
            Err(_) => J::Null,
        }
    }

    /// Resolve (def, node args) to the concrete callee when possible.
    fn resolve_callee(&self, did: DefId, hir_id: hir::HirId) -> Vec<(&'static str, J)> {
        let tcx = self.tcx;
        let args = self.tr.node_args(hir_id);
        let mut v = vec![("fn", J::s(cpath(tcx, did)))];
        if let Some(t) = tcx.trait_of_assoc(did) {
            v.push(("trait", J::s(path_str(tcx, t))));
            if let Some(st) = args.get(0).and_then(|a| a.as_type()) {
                v.push(("self_ty", J::s(ty_str(st))));
            }
        }
        if !args.is_empty() {
            v.push(("gargs", J::s(ty::print::with_crate_prefix!(ty::print::with_no_trimmed_paths!(format!("{:?}", args))))));
        }
        let env = ty::TypingEnv::post_analysis(tcx, self.owner);
        if args.len() != tcx.generics_of(did).count() {
            v.push(("args_mismatch", J::Bool(true)));
            return v;
        }
        if let Ok(Some(inst)) = ty::Instance::try_resolve(tcx, env, did, args) {
            match inst.def {
                ty::InstanceKind::Item(d) if d != did => v.push(("resolved", J::s(cpath(tcx, d)))),
                ty::InstanceKind::Virtual(..) => v.push(("virtual", J::Bool(true))),
                _ => {}
            }
        }
        if did.krate != rustc_span::def_id::LOCAL_CRATE {
            v.push(("krate", J::s(tcx.crate_name(did.krate).to_string())));
        }
        v
    }

    fn qpath_j(&self, qp: &hir::QPath<'tcx>, hir_id: hir::HirId) -> Vec<(&'static str, J)> {
        let res = self.tr.qpath_res(qp, hir_id);
        self.res_j(res, hir_id)
    }

    fn lit_j(&self, lit: &hir::Lit, negated: bool) -> J {
        use rustc_ast::LitKind;
        match &lit.node {
            LitKind::Int(v, _) => {
                let n = v.get() as i128;
                J::Num(if negated { -n } else { n })
            }
            LitKind::Bool(b) => J::Bool(*b),
            LitKind::Str(s, _) => J::s(s.to_string()),
            LitKind::Char(c) => J::s(c.to_string()),
            LitKind::Byte(b) => J::Num(*b as i128),
            LitKind::Float(s, _) => J::s(format!("{}{}", if negated { "-" } else { "" }, s)),
            other => J::s(format!("{:?}", other)),
        }
    }

    fn pat(&self, p: &'tcx hir::Pat<'tcx>) -> J {
        use hir::PatKind::*;
        match &p.kind {
            Wild | Missing => obj! {"k": J::s("wild")},
            Never => obj! {"k": J::s("never")},
            Binding(_, _, id, sub) => obj! {
                "k": J::s("bind"),
                "name": J::s(id.name.to_string()),
                "sub": sub.map(|s| self.pat(s)).unwrap_or(J::Null),
            },
            Struct(qp, fields, _) => {
                let mut v = vec![("k", J::s("pstruct"))];
                v.extend(self.qpath_j(qp, p.hir_id));
                let fs: Vec<J> = fields
                    .iter()
                    .map(|f| J::Arr(vec![J::s(f.ident.name.to_string()), self.pat(f.pat)]))
                    .collect();
                v.push(("fields", J::Arr(fs)));
                J::Obj(v)
            }
            TupleStruct(qp, subs, _) => {
                let mut v = vec![("k", J::s("ptuple_struct"))];
                v.extend(self.qpath_j(qp, p.hir_id));
                v.push(("subs", J::Arr(subs.iter().map(|s| self.pat(s)).collect())));
                J::Obj(v)
            }
            Or(ps) => obj! {"k": J::s("or"), "alts": J::Arr(ps.iter().map(|s| self.pat(s)).collect())},
            Tuple(ps, _) => obj! {"k": J::s("ptuple"), "subs": J::Arr(ps.iter().map(|s| self.pat(s)).collect())},
            Box(s) | Deref(s) => self.pat(s),
            Ref(s, _, _) => self.pat(s),
            Expr(pe) => self.pat_expr(pe),
            Guard(s, g) => obj! {"k": J::s("pguard"), "pat": self.pat(s), "guard": self.expr(g)},
            Range(lo, hi, end) => obj! {
                "k": J::s("prange"),
                "lo": lo.map(|e| self.pat_expr(e)).unwrap_or(J::Null),
                "hi": hi.map(|e| self.pat_expr(e)).unwrap_or(J::Null),
                "inclusive": J::Bool(matches!(end, hir::RangeEnd::Included)),
            },
            Slice(a, m, b) => obj! {
                "k": J::s("pslice"),
                "before": J::Arr(a.iter().map(|s| self.pat(s)).collect()),
                "mid": m.map(|s| self.pat(s)).unwrap_or(J::Null),
                "after": J::Arr(b.iter().map(|s| self.pat(s)).collect()),
            },
            Err(_) => obj! {"k": J::s("err")},
        }
    }

    fn pat_expr(&self, pe: &'tcx hir::PatExpr<'tcx>) -> J {
        match &pe.kind {
            hir::PatExprKind::Lit { lit, negated } => obj! {"k": J::s("plit"), "v": self.lit_j(lit, *negated)},
            hir::PatExprKind::Path(qp) => {
                let mut v = vec![("k", J::s("ppath"))];
                v.extend(self.qpath_j(qp, pe.hir_id));
                J::Obj(v)
            }
        }
    }

    fn block(&self, b: &'tcx hir::Block<'tcx>) -> J {
        let mut stmts = Vec::new();
        for s in b.stmts.iter() {
            match &s.kind {
                hir::StmtKind::Let(l) => stmts.push(obj! {
                    "k": J::s("let"),
                    "pat": self.pat(l.pat),
                    "init": l.init.map(|e| self.expr(e)).unwrap_or(J::Null),
                    "els": l.els.map(|b| self.block(b)).unwrap_or(J::Null),
                    "line": self.line(s.span),
                }),
                hir::StmtKind::Expr(e) | hir::StmtKind::Semi(e) => stmts.push(self.expr(e)),
                hir::StmtKind::Item(_) => {}
            }
        }
        obj! {
            "k": J::s("block"),
            "stmts": J::Arr(stmts),
            "expr": b.expr.map(|e| self.expr(e)).unwrap_or(J::Null),
            "unsafe": if matches!(b.rules, hir::BlockCheckMode::UnsafeBlock(_)) { J::Bool(true) } else { J::Null },
        }
    }

    fn exprs(&self, es: &'tcx [hir::Expr<'tcx>]) -> J {
        J::Arr(es.iter().map(|e| self.expr(e)).collect())
    }

    fn expr(&self, e: &'tcx hir::Expr<'tcx>) -> J {
        use hir::ExprKind::*;
        let line = ("line", self.line(e.span));
        let exp = ("exp", if e.span.from_expansion() { J::Bool(true) } else { J::Null });
        match &e.kind {
            DropTemps(inner) | Use(inner, _) | Type(inner, _) => self.expr(inner),
            Block(b, _) => self.block(b),
            ConstBlock(_) => obj! {"k": J::s("constblock")},
            Array(es) => J::Obj(vec![("k", J::s("array")), ("elems", self.exprs(es)), line]),
            Tup(es) => J::Obj(vec![("k", J::s("tuple")), ("elems", self.exprs(es)), line]),
            Call(f, args) => {
                let mut v = vec![("k", J::s("call"))];
                let mut done = false;
                if let Path(qp) = &f.kind {
                    let res = self.tr.qpath_res(qp, f.hir_id);
                    match res {
                        Res::Def(DefKind::Fn | DefKind::AssocFn, did) => {
                            v.extend(self.resolve_callee(did, f.hir_id));
                            done = true;
                        }
                        Res::Def(DefKind::Ctor(..), did) => {
                            v.push(("ctor", J::s(path_str(self.tcx, self.tcx.parent(did)))));
                            done = true;
                        }
                        Res::SelfCtor(did) => {
                            v.push(("ctor", J::s(path_str(self.tcx, did))));
                            done = true;
                        }
                        _ => {}
                    }
                }
                if !done {
                    v.push(("f", self.expr(f)));
                }
                v.push(("args", self.exprs(args)));
                v.push(("ty", J::s(ty_str(self.tr.expr_ty(e)))));
                v.push(line);
                v.push(exp);
                J::Obj(v)
            }
            MethodCall(seg, recv, args, _) => {
                let mut v = vec![("k", J::s("mcall")), ("name", J::s(seg.ident.name.to_string()))];
                if let Some(did) = self.tr.type_dependent_def_id(e.hir_id) {
                    v.extend(self.resolve_callee(did, e.hir_id));
                }
                v.push(("recv", self.expr(recv)));
                v.push(("recv_ty", J::s(ty_str(self.tr.expr_ty_adjusted(recv)))));
                v.push(("args", self.exprs(args)));
                v.push(("ty", J::s(ty_str(self.tr.expr_ty(e)))));
                v.push(line);
                v.push(exp);
                J::Obj(v)
            }
            Binary(op, l, r) => {
                let mut v = vec![
                    ("k", J::s("bin")),
                    ("op", J::s(op.node.as_str())),
                    ("l", self.expr(l)),
                    ("r", self.expr(r)),
                    ("lty", J::s(ty_str(self.tr.expr_ty(l)))),
                ];
                // overloaded operator?
                if let Some(did) = self.tr.type_dependent_def_id(e.hir_id) {
                    v.extend(self.resolve_callee(did, e.hir_id));
                }
                v.push(line);
                J::Obj(v)
            }
            Unary(op, x) => {
                let mut v = vec![("k", J::s("un")), ("op", J::s(op.as_str())), ("x", self.expr(x))];
                if let Some(did) = self.tr.type_dependent_def_id(e.hir_id) {
                    v.extend(self.resolve_callee(did, e.hir_id));
                }
                v.push(line);
                J::Obj(v)
            }
            Lit(l) => obj! {"k": J::s("lit"), "v": self.lit_j(l, false)},
            Cast(x, _) => obj! {"k": J::s("cast"), "x": self.expr(x), "ty": J::s(ty_str(self.tr.expr_ty(e))), "from": J::s(ty_str(self.tr.expr_ty(x)))},
            Let(l) => J::Obj(vec![("k", J::s("letx")), ("pat", self.pat(l.pat)), ("init", self.expr(l.init)), line]),
            If(c, t, el) => J::Obj(vec![
                ("k", J::s("if")),
                ("cond", self.expr(c)),
                ("then", self.expr(t)),
                ("else", el.map(|x| self.expr(x)).unwrap_or(J::Null)),
                line,
                exp,
            ]),
            Loop(b, _, src, _) => J::Obj(vec![
                ("k", J::s("loop")),
                ("src", J::s(match src {
                    hir::LoopSource::Loop => "loop",
                    hir::LoopSource::While => "while",
                    hir::LoopSource::ForLoop => "for",
                })),
                ("body", self.block(b)),
                line,
            ]),
            Match(scrut, arms, src) => {
                let src_s = match src {
                    hir::MatchSource::Normal => "normal",
                    hir::MatchSource::Postfix => "postfix",
                    hir::MatchSource::ForLoopDesugar => "for",
                    hir::MatchSource::TryDesugar(_) => "try",
                    hir::MatchSource::AwaitDesugar => "await",
                    hir::MatchSource::FormatArgs => "format_args",
                };
                let arms_j: Vec<J> = arms
                    .iter()
                    .map(|a| {
                        obj! {
                            "pat": self.pat(a.pat),
                            "guard": a.guard.map(|g| self.expr(g)).unwrap_or(J::Null),
                            "body": self.expr(a.body),
                            "line": self.line(a.span),
                        }
                    })
                    .collect();
                J::Obj(vec![
                    ("k", J::s("match")),
                    ("src", J::s(src_s)),
                    ("scrut", self.expr(scrut)),
                    ("scrut_ty", J::s(ty_str(self.tr.expr_ty_adjusted(scrut)))),
                    ("arms", J::Arr(arms_j)),
                    line,
                    exp,
                ])
            }
            Closure(c) => {
                let body = self.tcx.hir_body(c.body);
                let params: Vec<J> = body.params.iter().map(|p| self.pat(p.pat)).collect();
                // closure bodies are type-checked with the parent: same typeck results
                J::Obj(vec![
                    ("k", J::s("closure")),
                    ("def", J::s(cpath(self.tcx, c.def_id.to_def_id()))),
                    ("params", J::Arr(params)),
                    ("body", self.expr(body.value)),
                    ("kind", J::s(format!("{:?}", c.kind))),
                    line,
                ])
            }
            Assign(l, r, _) => J::Obj(vec![("k", J::s("assign")), ("l", self.expr(l)), ("r", self.expr(r)), line]),
            AssignOp(op, l, r) => {
                let mut v = vec![
                    ("k", J::s("assign_op")),
                    ("op", J::s(op.node.as_str())),
                    ("l", self.expr(l)),
                    ("r", self.expr(r)),
                ];
                if let Some(did) = self.tr.type_dependent_def_id(e.hir_id) {
                    v.extend(self.resolve_callee(did, e.hir_id));
                }
                v.push(line);
                J::Obj(v)
            }
            Field(base, id) => {
                let bty = self.tr.expr_ty_adjusted(base);
                let mut owner = bty;
                // peel references / autoderef for naming the owning ADT
                loop {
                    match owner.kind() {
                        ty::Ref(_, t, _) => owner = *t,
                        ty::RawPtr(t, _) => owner = *t,
                        _ => break,
                    }
                }
                // field access may autoderef through smart pointers: use the adjustment-free lookup
                let owner_s = match owner.kind() {
                    ty::Adt(adt, _) => {
                        let has = adt.is_struct() && adt.non_enum_variant().fields.iter().any(|f| f.name == id.name);
                        if has { path_str(self.tcx, adt.did()) } else { format!("~{}", path_str(self.tcx, adt.did())) }
                    }
                    ty::Tuple(_) => "tuple".to_string(),
                    _ => ty_str(owner),
                };
                obj! {
                    "k": J::s("field"),
                    "name": J::s(id.name.to_string()),
                    "owner": J::s(owner_s),
                    "base": self.expr(base),
                    "ty": J::s(ty_str(self.tr.expr_ty(e))),
                }
            }
            Index(b, i, _) => {
                let mut v = vec![
                    ("k", J::s("index")),
                    ("base", self.expr(b)),
                    ("idx", self.expr(i)),
                    ("base_ty", J::s(ty_str(self.tr.expr_ty_adjusted(b)))),
                ];
                if let Some(did) = self.tr.type_dependent_def_id(e.hir_id) {
                    v.extend(self.resolve_callee(did, e.hir_id));
                }
                v.push(line);
                J::Obj(v)
            }
            Path(qp) => {
                let mut v = vec![("k", J::s("path"))];
                v.extend(self.qpath_j(qp, e.hir_id));
                v.push(("ty", J::s(ty_str(self.tr.expr_ty(e)))));
                J::Obj(v)
            }
            AddrOf(_, m, x) => obj! {"k": J::s("addr"), "mut": J::Bool(m.is_mut()), "x": self.expr(x)},
            Break(_, x) => J::Obj(vec![("k", J::s("break")), ("x", x.map(|x| self.expr(x)).unwrap_or(J::Null)), line]),
            Continue(_) => J::Obj(vec![("k", J::s("continue")), line]),
            Ret(x) => J::Obj(vec![("k", J::s("ret")), ("x", x.map(|x| self.expr(x)).unwrap_or(J::Null)), line]),
            Become(x) => obj! {"k": J::s("become"), "x": self.expr(x)},
            Struct(qp, fields, tail) => {
                let mut v = vec![("k", J::s("struct"))];
                v.extend(self.qpath_j(qp, e.hir_id));
                let fs: Vec<J> = fields
                    .iter()
                    .map(|f| J::Arr(vec![J::s(f.ident.name.to_string()), self.expr(f.expr)]))
                    .collect();
                v.push(("fields", J::Arr(fs)));
                if let hir::StructTailExpr::Base(b) = tail {
                    v.push(("base", self.expr(b)));
                }
                v.push(("ty", J::s(ty_str(self.tr.expr_ty(e)))));
                v.push(line);
                J::Obj(v)
            }
            Repeat(x, _) => obj! {"k": J::s("repeat"), "x": self.expr(x)},
            Yield(x, _) => obj! {"k": J::s("yield"), "x": self.expr(x)},
            InlineAsm(_) => obj! {"k": J::s("asm")},
            OffsetOf(..) => obj! {"k": J::s("offset_of")},
            UnsafeBinderCast(_, x, _) => self.expr(x),
            Err(_) => obj! {"k": J::s("err")},
        }
    }
}
