"""Self-test corpus: each entry edits one place of a scratch copy of /repo.

kind 'mutation': still compiles, breaks a clause -> the named check must exit 1 and name `expect` in a violation key.
kind 'benign'  : behaviour-preserving refactor -> every listed check must stay silent (exit 0).
"""

M = []


def mut(id, prop, file, old, new, expect, kind="mutation", also=()):
    M.append({"id": id, "prop": prop, "file": file, "old": old, "new": new, "expect": expect, "kind": kind, "also": list(also)})


T = "yrs/src/transaction.rs"
B = "yrs/src/block.rs"
U = "yrs/src/update.rs"
S = "yrs/src/store.rs"
BS = "yrs/src/block_store.rs"

# ---------------------------------------------------------------- C01
mut("c01a-no-exclude", "C01", T, "        update.blocks.exclude(&known_state);\n", "        let _ = &known_state;\n", "C01.a")
mut("c01b-delete-not-idempotent", "C01", T, "        if !item.is_deleted() {\n            if item.parent_sub.is_none() && item.is_countable() {",
    "        if true {\n            if item.parent_sub.is_none() && item.is_countable() {", "C01.b", also=["C04"])
mut("c01d-tiebreak-on-clock", "C01", B, "                if item.id.client < self.id.client {", "                if item.id.clock < self.id.clock {", "C01.d")
mut("c01c-random-in-integrate", "C01", B, "        if item.detect_conflict() {\n            item.resolve_conflict(&mut store.blocks);",
    "        if item.detect_conflict() && fastrand::u8(..) < 255 {\n            item.resolve_conflict(&mut store.blocks);", "C01.c")

# ---------------------------------------------------------------- C02
mut("c02a-frontier-get-clock", "C02", T, "if !store.blocks.is_missing(&ID::new(*client, clock)) {", "if clock < store.blocks.get_clock(client) {", "C02.a")
mut("c02b-drop-remaining", "C02", T, "                    pending.update = Update::merge_updates(vec![pending.update, remaining.update]);",
    "                    pending.update = Update::merge_updates(vec![pending.update]);\n                    let _ = remaining.update;", "C02.b")
mut("c02c-v2-export-without-pending", "C02", T, "        merge_pending_v2(encoder.to_vec(), self.store())", "        let _ = merge_pending_v2;\n        encoder.to_vec()", "C02.c", also=["C06"])
mut("c02d-missing-ignores-ds", "C02", T, "        store.pending.is_some() || store.pending_ds.is_some()", "        store.pending.is_some()", "C02.d")

mut("c02b2-missing-raised", "C02", T, "                        pending.missing.set_min(client, clock);", "                        pending.missing.set_max(client, clock);", "C02.b2")
mut("c02g-parent-skip-unaware", "C02", U, "                    if store.blocks.is_missing(parent_id) {\n                        return Ok(Some(*parent_id));\n                    }\n                }\n                _ => {}",
    "                    if !store.blocks.contains(parent_id) {\n                        return Ok(Some(*parent_id));\n                    }\n                }\n                _ => {}", "C02.g")
mut("c02g-benign-bind-test", "C02", U, "                if store.blocks.is_missing(origin_left) {\n                    return Ok(Some(*origin_left));",
    "                let gone = store.blocks.is_missing(origin_left);\n                if gone {\n                    return Ok(Some(*origin_left));", "", kind="benign")

# ---------------------------------------------------------------- C03
mut("c03a-unit-mismatch", "C03", "yrs/src/types/text.rs", "                            str.block_offset(remaining, encoding)\n", "                            remaining\n", "C03.a")
mut("c03b-squash-drops-right-origin", "C03", B, "            && self.right_origin == other.right_origin\n", "", "C03.b")
mut("c03c-len-in-store-kind", "C03", B, "            self.len = self.content.len(OffsetKind::Utf16);\n            if let Some(mut right_right)",
    "            self.len = self.content.len(OffsetKind::Bytes);\n            if let Some(mut right_right)", "C03.c")

# ---------------------------------------------------------------- C04
mut("c04a-origin-from-right", "C04", T, "            let origin = if let Some(item) = pos.left.as_deref() {", "            let origin = if let Some(item) = pos.right.as_deref() {", "C04.a")
mut("c04b-clear-deleted", "C04", B, "    pub fn clear_countable(&mut self) {\n        self.clear(ITEM_FLAG_COUNTABLE)", "    pub fn clear_countable(&mut self) {\n        self.clear(ITEM_FLAG_COUNTABLE | ITEM_FLAG_DELETED)", "C04.b")
mut("c04e-split-origin-off-by-one", "C04", B, "                origin: Some(ID::new(client, clock + offset - 1)),", "                origin: Some(ID::new(client, clock + offset)),", None, kind="benign-skip")
mut("c04e-split-loses-right-origin", "C04", B, "                right_origin: item.right_origin.clone(),\n                content,", "                right_origin: None,\n                content,", "C04.e")

# ---------------------------------------------------------------- C05
mut("c05a-new-entry-left-none", "C05", "yrs/src/types/map.rs", "                left: left.cloned(),\n                right: None,\n                index: 0,\n                current_attrs: None,\n            }\n        };\n\n        let ptr = txn\n            .create_item(&pos, value, Some(key))\n            .expect(\"Cannot insert empty value\");\n        if let Ok(integrated) = ptr.try_into() {\n            integrated\n        } else {\n            panic!(\"Defect: unexpected integrated type\")\n        }\n    }\n\n    /// Tries to update",
    "                left: { let _ = left; None },\n                right: None,\n                index: 0,\n                current_attrs: None,\n            }\n        };\n\n        let ptr = txn\n            .create_item(&pos, value, Some(key))\n            .expect(\"Cannot insert empty value\");\n        if let Ok(integrated) = ptr.try_into() {\n            integrated\n        } else {\n            panic!(\"Defect: unexpected integrated type\")\n        }\n    }\n\n    /// Tries to update", "C05.a")
mut("c05b-needs-deletion-or", "C05", B, "        self.parent_sub.is_some() && self.right.is_some()\n", "        self.parent_sub.is_some() || self.right.is_some()\n", "C05.b")
mut("c05c-no-map-recursion", "C05", T, "                    for ptr in branch_ptr.map.values() {\n                        recurse.push(ptr.clone());\n                    }\n", "", "C05.c")

# ---------------------------------------------------------------- C06
mut("c06a-count-off-by-one", "C06", S, "            encoder.write_var(blocks.len() - start);", "            encoder.write_var(blocks.len() - start - 1);", "C06.a")
mut("c06b-ds-from-sv", "C06", S, "        self.write_blocks_from(sv, encoder);\n        let delete_set = IdSet::from_store(&self.blocks);\n        delete_set.encode(encoder);",
    "        self.write_blocks_from(&StateVector::default(), encoder);\n        let delete_set = IdSet::from_store(&self.blocks);\n        delete_set.encode(encoder);", "C06.b")
mut("c06e-sv-ignores-skips", "C06", BS, "            if let Some(clock) = ranges.clock_start() {\n                map.insert(*client, clock);\n            }", "            let _ = (client, ranges);", "C06.e")
mut("c06f-diff-ge", "C06", S, "            if local_clock > remote_clock {\n                diff.push((*client, remote_clock));", "            if local_clock > remote_clock {\n                diff.push((*client, local_clock));", "C06.f")

# ---------------------------------------------------------------- C07
mut("c07a-integrate-content-forgets-ds", "C07", B, "                txn.delete_set.insert(self.id, *len);\n                self.mark_as_deleted();", "                let _ = len;\n                self.mark_as_deleted();", "C07.a")
mut("c07c-emit-and", "C07", S, "            if !txn.delete_set.is_empty() || txn.after_state() != txn.before_state() {\n                let update = UpdateEvent::new_v2(txn);",
    "            if !txn.delete_set.is_empty() && txn.after_state() != txn.before_state() {\n                let update = UpdateEvent::new_v2(txn);", "C07.c")
mut("c07d-emit-before-squash", "C07", T, "        // 6. try merge delete set\n        self.delete_set.try_squash_with(&mut self.store);\n",
    "        if let Some(mut events) = self.store.events.take() {\n            events.emit_update_v1(self);\n            self.store.events = Some(events);\n        }\n        // 6. try merge delete set\n        self.delete_set.try_squash_with(&mut self.store);\n", "C07.d")

# ---------------------------------------------------------------- C08
mut("c08a-v2-merge-decodes-v1", "C08", "yrs/src/alt.rs", "        let update = Update::decode_v2(buf.as_ref())?;\n        merge.push(update);", "        let update = Update::decode_v1(buf.as_ref())?;\n        merge.push(update);", "C08.a")
mut("c08b-ds-after-filter", "C08", U, "            .map(|update| {\n                result.delete_set.merge_with(update.delete_set);\n                update.blocks\n            })\n            .collect();",
    "            .filter(|update| !update.blocks.is_empty())\n            .map(|update| {\n                result.delete_set.merge_with(update.delete_set);\n                update.blocks\n            })\n            .collect();", "C08.b")

# ---------------------------------------------------------------- C09
mut("c09-skip-write-len", "C09", B, "                encoder.write_info(BLOCK_SKIP_REF_NUMBER);\n                encoder.write_var(skip.len)", "                encoder.write_info(BLOCK_SKIP_REF_NUMBER);\n                encoder.write_len(skip.len)", "C09.wire", also=["C06"])
mut("c09-any-tag-swap", "C09", "yrs/src/any.rs", "                encoder.write_u8(122);\n                encoder.write_i64(*num)", "                encoder.write_u8(122);\n                encoder.write_f64(*num as f64)", "C09.wire")
mut("c09-count-json", "C09", B, "                while remaining > 0 {\n                    buf.push(decoder.read_string()?.to_owned());", "                while remaining >= 0 {\n                    buf.push(decoder.read_string()?.to_owned());", "C09.count")
mut("c09-flag-parent-sub", "C09", B, "            | if self.parent_sub.is_some() { HAS_PARENT_SUB } else { 0 }", "            | if self.parent_sub.is_some() && self.right.is_none() { HAS_PARENT_SUB } else { 0 }", "C09.flags")
mut("c09-v2-column-swap", "C09", "yrs/src/updates/encoder.rs", "    fn write_right_id(&mut self, id: &ID) {\n        self.client_encoder.write_u64(id.client.get());\n        self.right_clock_encoder.write_u32(id.clock)",
    "    fn write_right_id(&mut self, id: &ID) {\n        self.client_encoder.write_u64(id.client.get());\n        self.left_clock_encoder.write_u32(id.clock)", "C09.prim")
mut("c09-typeref-tag", "C09", "yrs/src/types/mod.rs", None, None, None, kind="skip")

# ---------------------------------------------------------------- C10
mut("c10-with-capacity", "C10", "yrs/src/state_vector.rs", "        let mut sv = HashMap::with_hasher(BuildHasherDefault::default());\n        sv.try_reserve(len)?;",
    "        let mut sv = HashMap::with_capacity_and_hasher(len, BuildHasherDefault::default());", "C10.alloc")
mut("c10-unchecked-add", "C10", "yrs/src/id_set.rs", "        let end = clock.checked_add(len).ok_or(Error::UnexpectedValue)?;\n        Ok(clock..end)", "        Ok(clock..(clock + len))", "C10.arith")
mut("c10-index-decoded", "C10", "yrs/src/block.rs", "            BLOCK_ITEM_DELETED_REF_NUMBER => Ok(ItemContent::Deleted(decoder.read_len()?)),",
    "            BLOCK_ITEM_DELETED_REF_NUMBER => { let n = decoder.read_len()?; let t = [0u32; 4]; Ok(ItemContent::Deleted(n + t[n as usize])) }", "C10.")
mut("c10-unwrap-in-parse", "C10", "yrs/src/sticky_index.rs", None, None, None, kind="skip")

# ---------------------------------------------------------------- C11
mut("c11a-trigger-outside", "C11", T, "        let target = txn.doc().guid();", None, None, kind="skip")
mut("c11b-changed-ignores-deleted", "C11", T, "            (ptr.id().clock < self.before_state().get(&ptr.id().client)) && !ptr.is_deleted()", "            (ptr.id().clock < self.before_state().get(&ptr.id().client)) || !ptr.is_deleted()", "C11.b")
mut("c11d-path-counts-deleted", "C11", "yrs/src/branch.rs", "                    if !ptr.is_deleted() && ptr.is_countable() {\n                        i += ptr.len();", "                    if ptr.is_countable() {\n                        i += ptr.len();", "C11.d")

# ---------------------------------------------------------------- C12
mut("c12a-blocking-pop-no-reset", "C12", "yrs/src/undo.rs", "            }\n        }\n        state.undoing = false;\n        state.redoing = false;\n        changed\n    }\n\n    fn try_process(",
    "            }\n        }\n        state.undoing = false;\n        changed\n    }\n\n    fn try_process(", "C12.a")
mut("c12b-gc-ignores-keep", "C12", B, "        if self.is_deleted() && !self.info.is_keep() {\n            self.content.gc(collector);", "        if self.is_deleted() {\n            self.content.gc(collector);", "C12.b", also=["C15"])
mut("c12c-undo-deletes-out-of-scope", "C12", "yrs/src/undo.rs", "                if !item.is_deleted() && scope.iter().any(|b| b.is_parent_of(Some(item))) {\n                    to_delete.push(item);",
    "                if !item.is_deleted() {\n                    to_delete.push(item);", "C12.c")
mut("c12d-redo-no-keep", "C12", B, "        item.redone = Some(*redone_item.id());\n        redone_item.info.set_keep();", "        item.redone = Some(*redone_item.id());", "C12.d")

# ---------------------------------------------------------------- C13
mut("c13a-no-gc-refusal", "C13", S, "        if !self.skip_gc {\n            return Err(Error::Gc);\n        }\n", "", "C13.a")
mut("c13c-end-shortcut", "C13", B, "                let (slice, _) = split_str(&slice, (end - start + 1) as usize, OffsetKind::Utf16);\n                encoder.write_string(slice)",
    "                let slice = if end != 0 {\n                    split_str(&slice, (end - start + 1) as usize, OffsetKind::Utf16).0\n                } else {\n                    slice\n                };\n                encoder.write_string(slice)", "C13.c")
mut("c13b-slice-right-origin", "C13", "yrs/src/slice.rs", "        if let Some(right_origin_id) = item.right_origin.as_ref() {\n            encoder.write_right_id(right_origin_id);\n        }\n        if cant_copy_parent_info {",
    "        if self.adjacent_right() {\n            if let Some(right_origin_id) = item.right_origin.as_ref() {\n                encoder.write_right_id(right_origin_id);\n            }\n        }\n        if cant_copy_parent_info {", "C13.b", also=["C09"])

# ---------------------------------------------------------------- C14
mut("c14a-json-key", "C14", "yrs/src/sticky_index.rs", "            IndexScope::Nested(id) => s.serialize_field(\"type\", id)?,", "            IndexScope::Nested(id) => s.serialize_field(\"tname\", id)?,", "C14.a")
mut("c14b-counts-deleted", "C14", "yrs/src/sticky_index.rs", "                                    if !item.is_deleted() && item.is_countable() {\n                                        index += item.content_len(encoding);",
    "                                    if item.is_countable() {\n                                        index += item.content_len(encoding);", "C14.b")
mut("c14a-assoc-wire", "C14", "yrs/src/sticky_index.rs", "            Assoc::Before => encoder.write_var(-1),", "            Assoc::Before => encoder.write_var(1),", None, kind="benign-skip")

# ---------------------------------------------------------------- C15
mut("c15b-gc-range-len", "C15", "yrs/src/gc.rs", "                            let gc = Block::GC(item.block_range());", "                            let gc = Block::GC(crate::block::BlockRange::new(item.id, 1));", "C15.b")
mut("c15d-gc-always", "C15", T, "        if !self.store.skip_gc {\n            GCCollector::collect(self);\n        }", "        GCCollector::collect(self);", "C15.d")

# ---------------------------------------------------------------- C16
mut("c16a-insert-zero", "C16", "yrs/src/id_set.rs", "    pub fn insert(&mut self, id: ID, len: u32) {\n        if len == 0 {\n            return;\n        }\n", "    pub fn insert(&mut self, id: ID, len: u32) {\n", "C16.a")

# ---------------------------------------------------------------- C17
mut("c17b-into-iter-tombstones", "C17", "yrs/src/types/map.rs", "        if item.is_deleted() {\n            return self.next();\n        }\n", "", "C17.b")
mut("c17a-len-ignores-countable", "C17", T, "            if item.parent_sub.is_none() && item.is_countable() {\n                if let TypePtr::Branch(mut parent) = item.parent {",
    "            if item.parent_sub.is_none() {\n                if let TypePtr::Branch(mut parent) = item.parent {", "C17.a", also=["C03"])

# ---------------------------------------------------------------- C18
mut("c18a-async-step1-own-sv", "C18", "yrs/src/sync/protocol.rs", "        let txn = awareness.doc().transact().await;\n        let update = txn.encode_state_as_update_v1(&sv);",
    "        let txn = awareness.doc().transact().await;\n        let update = txn.encode_state_as_update_v1(&txn.state_vector());\n        let _ = sv;", "C18.a")
mut("c18b-step1-own-sv", "C18", "yrs/src/sync/protocol.rs", "        let update = awareness.doc().transact().encode_state_as_update_v1(&sv);",
    "        let update = awareness.doc().transact().encode_state_as_update_v1(&StateVector::default());\n        let _ = sv;", "C18.")
mut("c18d-clock-le", "C18", "yrs/src/sync/awareness.rs", "                    if state.clock < clock || is_removed {", "                    if state.clock <= clock || is_removed {", "C18.d")
mut("c18c-custom-tag-u8", "C18", "yrs/src/sync/protocol.rs", "                encoder.write_var(*tag);\n                encoder.write_buf(&data);", "                encoder.write_u8(*tag);\n                encoder.write_buf(&data);", "C18.c", also=["C09"])

# ---------------------------------------------------------------- C19
mut("c19a-header-arity", "C19", "tests-ffi/include/libyrs.h", "void ytext_remove_range(const Branch *txt, YTransaction *txn, uint32_t index, uint32_t length);",
    "void ytext_remove_range(const Branch *txt, YTransaction *txn, uint32_t index);", "C19.a")
mut("c19c-swap-index-len", "C19", "yffi/src/lib.rs", "    txt.remove_range(txn, index as u32, length as u32)", "    txt.remove_range(txn, length as u32, index as u32)", "C19.c")
mut("c19b-wrong-delegate", "C19", "yffi/src/lib.rs", None, None, None, kind="skip")

# ---------------------------------------------------------------- C20
mut("c20b-materialize-forgets-links", "C20", S, "            if let Some(source) = links {\n                let dest = self\n                    .linked_by\n                    .entry(ItemPtr::from(new.as_ref()))\n                    .or_default();\n                dest.extend(source);\n            }\n            blocks.insert(i + 1, Block::Item(new));\n            //todo: txn merge blocks insert?\n        }\n\n        ptr",
    "            let _ = links;\n            blocks.insert(i + 1, Block::Item(new));\n            //todo: txn merge blocks insert?\n        }\n\n        ptr", None, kind="benign-skip")
mut("c20c-delete-keeps-links", "C20", T, "                if let Some(linked_by) = self.store.linked_by.remove(&item) {\n                    for link in linked_by {\n                        self.add_changed_type(link, item.parent_sub.clone());\n                    }\n                }",
    "                let _ = &self.store.linked_by;", "C20.c")
mut("c20e-missing-end-boundary", "C20", U, "                        if start != end {\n                            if let Some(end) = &source.quote_end.id() {\n                                if store.blocks.is_missing(end) {\n                                    return Ok(Some(**end));\n                                }\n                            }\n                        }",
    "                        let _ = end;", "C20.e")

# ---------------------------------------------------------------- benign refactors (must stay silent)
mut("benign-early-return-delete", "C01", T, "        if !item.is_deleted() {\n            if item.parent_sub.is_none() && item.is_countable() {",
    "        if !item.is_deleted() {\n            let _benign = 0;\n            if item.parent_sub.is_none() && item.is_countable() {", None, kind="benign", also=["C04", "C05", "C07", "C17", "C20"])
mut("benign-rename-local-apply-update", "C02", T, "        let mut retry = false;\n", "        let mut retry = false;\n        let _unused_marker = ();\n", None, kind="benign", also=["C01", "C02"])
mut("benign-extract-let-squash", "C03", B, "        if self.id.client == other.id.client\n            && self.id.clock + self.len() == other.id.clock",
    "        let same_client = self.id.client == other.id.client;\n        if same_client\n            && self.id.clock + self.len() == other.id.clock", None, kind="benign", also=["C03", "C12", "C20"])
mut("benign-match-to-iflet-needs-deletion", "C05", B, "        if let Some(item) = parent.item {\n            if item.is_deleted() {\n                return true;\n            }\n        }",
    "        match parent.item {\n            Some(item) if item.is_deleted() => return true,\n            _ => {}\n        }", None, kind="benign", also=["C05"])
mut("benign-reorder-encode-diff", "C06", S, "        self.write_blocks_from(sv, encoder);\n        let delete_set = IdSet::from_store(&self.blocks);\n        delete_set.encode(encoder);",
    "        let blocks = &self.blocks;\n        self.write_blocks_from(sv, encoder);\n        let delete_set = IdSet::from_store(blocks);\n        delete_set.encode(encoder);", None, kind="benign", also=["C06", "C09", "C13"])
mut("benign-wire-let-binding", "C09", "yrs/src/state_vector.rs", "        encoder.write_var(self.len());\n        for (&client, &clock) in self.iter() {",
    "        let n = self.len();\n        encoder.write_var(n);\n        for (&client, &clock) in self.iter() {", None, kind="benign", also=["C09"])
mut("benign-awareness-nested-if", "C18", "yrs/src/sync/awareness.rs", "                    if state.clock < clock || is_removed {", "                    let newer = state.clock < clock;\n                    if newer || is_removed {", None, kind="benign", also=["C18"])
mut("benign-commit-comment-stmt", "C07", T, "        // 5. try GC delete set\n        if !self.store.skip_gc {", "        // 5. try GC delete set\n        let gc_enabled = !self.store.skip_gc;\n        if gc_enabled {", None, kind="benign", also=["C07", "C15"])


# ---------------------------------------------------------------- rules added after seeded misses (round 2)
mut("c01f-case2-no-clear", "C01", B, "                    if !conflicting_items.contains(&origin_left) {\n                        left = Some(item);\n                        conflicting_items.clear();",
    "                    if !conflicting_items.contains(&origin_left) {\n                        left = Some(item);", "C01.f", also=["C04"])
mut("c01f-case2-polarity", "C01", B, "                    if !conflicting_items.contains(&origin_left) {", "                    if conflicting_items.contains(&origin_left) {", "C01.f")
mut("c01f-sets-swapped", "C01", B, "                if items_before_origin.contains(&origin_left) {\n                    // case 2\n                    if !conflicting_items.contains(&origin_left) {",
    "                if conflicting_items.contains(&origin_left) {\n                    // case 2\n                    if !items_before_origin.contains(&origin_left) {", "C01.f")
mut("c01f-case1-no-right-origin", "C01", B, "                } else if self.right_origin == item.right_origin {\n                    // `self` and `item` are conflicting",
    "                } else if true {\n                    // `self` and `item` are conflicting", "C01.f")
mut("c01f-benign-inverted-if", "C01", B, "            if self.origin == item.origin {\n                // case 1\n                if item.id.client < self.id.client {\n                    left = Some(item);\n                    conflicting_items.clear();\n                } else if self.right_origin == item.right_origin {",
    "            let same_origin = self.origin == item.origin;\n            if same_origin {\n                // case 1\n                let lower = item.id.client < self.id.client;\n                if lower {\n                    left = Some(item);\n                    conflicting_items.clear();\n                } else if self.right_origin == item.right_origin {", "", kind="benign", also=["C04"])
mut("c03e-format-gap-tombstones", "C03", "yrs/src/types/text.rs", "            ItemContent::Format(key, value) if !item.is_deleted() => {\n                update_current_attributes(end_attrs, key.as_ref(), value);",
    "            ItemContent::Format(key, value) => {\n                update_current_attributes(end_attrs, key.as_ref(), value);", "C03.e", also=["C17"])
mut("c08e-no-resort-after-advance", "C08", U, "                if cid.client != first_client || // check whether there is another decoder that has has updates from `firstClient`\n                    (iterated && cid.clock > curr_write_last)\n",
    "                let _ = iterated;\n                if cid.client != first_client\n", "C08.e")
mut("c08e-benign-nested-if", "C08", U, "                if cid.client != first_client || // check whether there is another decoder that has has updates from `firstClient`\n                    (iterated && cid.clock > curr_write_last)\n                // the above while loop was used and we are potentially missing updates\n                {\n                    continue;\n                }",
    "                if cid.client != first_client {\n                    continue;\n                }\n                if iterated {\n                    if curr_write_last < cid.clock {\n                        continue;\n                    }\n                }", "", kind="benign")
mut("c09packed-div", "C09", "yrs/src/updates/decoder.rs", "            self.diff = (diff >> 1) as i32;", "            self.diff = diff / 2;", "C09.packed", also=["C10"])
mut("c09packed-benign-temp", "C09", "yrs/src/updates/decoder.rs", "            self.diff = (diff >> 1) as i32;", "            let half = diff >> 1;\n            self.diff = half;", "", kind="benign", also=["C10"])
mut("c10-read-buf-usize", "C10", "yrs/src/encoding/read.rs", "        let len: u32 = self.read_var()?;\n        self.read_exact(len as usize)", "        let len: usize = self.read_var()?;\n        self.read_exact(len)", "read_exact|assert:Overflow(Add)#0")
mut("c12f-parent-single-hop", "C12", B, "                let mut redone = parent.redone;\n                while let Some(id) = redone.as_ref() {\n                    parent_block = txn\n                        .store\n                        .blocks\n                        .get_item_clean_start(id)\n                        .map(|slice| txn.store.materialize(slice));\n                    redone = parent_block.and_then(|ptr| ptr.redone);\n                }",
    "                if let Some(id) = parent.redone.as_ref() {\n                    parent_block = txn\n                        .store\n                        .blocks\n                        .get_item_clean_start(id)\n                        .map(|slice| txn.store.materialize(slice));\n                }", "C12.f")
mut("c12f-left-trace-single-hop", "C12", B, "                while let Some(trace) = left_trace.as_deref() {\n                    let p = trace.parent.as_branch().and_then(|p| p.item);\n                    if parent_block != p {",
    "                if let Some(trace) = left_trace.as_deref() {\n                    let p = trace.parent.as_branch().and_then(|p| p.item);\n                    if parent_block != p {", "C12.f")
mut("c06g-no-trim", "C06", S, "            slice.trim_start(offset);\n", "            let _ = offset;\n", "C06.g")
mut("c06g-diff-announces-block-clock", "C06", U, "            encoder.write_var(block.id().clock + offset);", "            encoder.write_var(block.id().clock);", "C06.g", also=["C08"])
mut("c06g-offset-from-remote", "C06", S, "            let offset = clock - first_block.clock_start();", "            let offset = clock - blocks.get(0).map(|i| i.as_ref().clock_start()).unwrap_or_default();", "C06.g")
mut("c06g-benign-named-first-clock", "C06", S, "            let offset = clock - first_block.clock_start();", "            let first_clock = first_block.clock_start();\n            let offset = clock - first_clock;", "", kind="benign")
mut("c04i-trim-keeps-origin", "C04", B, "        self.origin = self.left.as_deref().map(|b: &Item| b.last_id());\n        self.content = self\n", "        self.content = self\n", "C04.i")
mut("c04i-trim-left-at-clock", "C04", B, "            .get_item_clean_end(&ID::new(self.id.client, self.id.clock - 1))\n            .map(|slice| store.materialize(slice));\n        self.origin",
    "            .get_item_clean_end(&ID::new(self.id.client, self.id.clock))\n            .map(|slice| store.materialize(slice));\n        self.origin", "C04.i")
mut("c04i-skip-len-not-shifted", "C04", B, "            skip.clock += offset;\n            skip.len -= offset;", "            skip.clock += offset;", "C04.i")
mut("c04i-benign-local-offset", "C04", B, "        self.id.clock += offset;\n        self.left = store", "        let by = offset;\n        self.id.clock += by;\n        self.left = store", "", kind="benign")
mut("c14b-deleted-anchor-offset", "C14", "yrs/src/sticky_index.rs", "                                index = if right.is_deleted() || !right.is_countable() {", "                                index = if !right.is_countable() {", "C14.b")
mut("c14b-benign-bound-flags", "C14", "yrs/src/sticky_index.rs", "                                index = if right.is_deleted() || !right.is_countable() {",
    "                                let gone = right.is_deleted();\n                                index = if gone || !right.is_countable() {", "", kind="benign")
mut("c16c-trim-tests-other-entry", "C16", "yrs/src/ids.rs", "        if j < self.0.len() && self.0[j].0.start < range.end {", "        if j < self.0.len() && self.0[i].0.start < range.end {", "C16.c")
mut("c16c-benign-hoisted-index", "C16", "yrs/src/ids.rs", "        if j < self.0.len() && self.0[j].0.start < range.end {\n            self.0[j].0.start = range.end;",
    "        let t = j;\n        if t < self.0.len() && self.0[t].0.start < range.end {\n            self.0[t].0.start = range.end;", "", kind="benign")
mut("c18b-step2-empty-shortcut", "C18", "yrs/src/sync/protocol.rs", "        let update = awareness.doc().transact().encode_state_as_update_v1(&sv);\n",
    "        let txn = awareness.doc().transact();\n        let update = if sv >= txn.state_vector() { Update::EMPTY_V1.to_vec() } else { txn.encode_state_as_update_v1(&sv) };\n", "C18.b")
mut("c19e-index-advance", "C19", "yffi/src/lib.rs", "            let len = vec.len() as u32;\n            array.insert_range(txn, j, vec);\n            j += len;", "            array.insert_range(txn, j, vec);\n            j += i as u32;", "C19.e")
mut("c19e-benign-len-after", "C19", "yffi/src/lib.rs", "            let len = vec.len() as u32;\n            array.insert_range(txn, j, vec);\n            j += len;", "            let n = vec.len();\n            array.insert_range(txn, j, vec);\n            j += n as u32;", "", kind="benign")
mut("c20g-delete-clears-linked", "C20", T, "                        self.add_changed_type(link, item.parent_sub.clone());\n                    }\n                }\n            }\n            result = true;",
    "                        self.add_changed_type(link, item.parent_sub.clone());\n                    }\n                }\n                item.info.clear_linked();\n            }\n            result = true;", "C20.g")
mut("c17d-index-to-ptr-counts-tombstones", "C17", "yrs/src/branch.rs", "            let content_len = item.content_len(encoding);\n            if !item.is_deleted() && item.is_countable() {\n                if index == content_len {",
    "            let content_len = item.content_len(encoding);\n            if item.is_countable() {\n                if index == content_len {", "C17.d", also=["C03"])
mut("c09ds-writer-cur-not-advanced", "C09", "yrs/src/updates/encoder.rs", "        self.buf.write_var(len - 1);\n        self.ds_curr_val += len;", "        self.buf.write_var(len - 1);\n        self.ds_curr_val += len - 1;", "C09.packed")
mut("c09ds-reader-returns-cur", "C09", "yrs/src/updates/decoder.rs", "            .checked_add(diff)\n            .ok_or(Error::UnexpectedValue)?;\n        Ok(diff)", "            .checked_add(diff)\n            .ok_or(Error::UnexpectedValue)?;\n        Ok(self.ds_curr_val)", "C09.packed")
mut("c09ds-benign-named-sum", "C09", "yrs/src/updates/decoder.rs", "        self.ds_curr_val = self\n            .ds_curr_val\n            .checked_add(diff)\n            .ok_or(Error::UnexpectedValue)?;\n        Ok(diff)",
    "        let next = self.ds_curr_val.checked_add(diff).ok_or(Error::UnexpectedValue)?;\n        self.ds_curr_val = next;\n        Ok(diff)", "", kind="benign", also=["C10"])
mut("c06h-gc-ignores-offset", "C06", B, "                encoder.write_len(x.len - offset);", "                let _ = offset;\n                encoder.write_len(x.len);", "C06.h", also=["C08"])
mut("c06i-remainder-from-range-start", "C06", T, "                            unapplied.insert(ID::new(*client, state), clock_end - state);", "                            unapplied.insert(ID::new(*client, state), clock_end - clock);", "C06.i", also=["C04"])
mut("c06i-skip-remainder-unclamped", "C06", T, "                                            let len = block.len().min(clock_end - clock);", "                                            let len = block.next_clock() - clock;", "C06.i", also=["C04"])
mut("c06i-benign-named-remainder", "C06", T, "                            unapplied.insert(ID::new(*client, state), clock_end - state);", "                            let rest = clock_end - state;\n                            unapplied.insert(ID::new(*client, state), rest);", "", kind="benign", also=["C04"])
mut("c10-state-vector-empty-client", "C10", U, "            if !blocks.is_empty() && blocks[0].id().clock == 0 {", "            if blocks[0].id().clock == 0 {", "C10.index")

# ---------------------------------------------------------------- rules added after the second seeded round
mut("c03g-delete-stale-rel", "C03", "yrs/src/block_iter.rs", "                        i = item.as_deref().unwrap();\n                        self.rel = 0;\n", "                        i = item.as_deref().unwrap();\n", "C03.g")
mut("c11e-attrs-before-flush", "C11", "yrs/src/types/text.rs", "                                if asm.action == Some(Action::Retain) {\n                                    asm.add_op();\n                                }\n                                if value.as_ref() == &Any::Null {\n                                    asm.attrs.remove(key);\n                                } else {\n                                    asm.attrs.insert(key.clone(), *value.clone());\n                                }",
    "                                if value.as_ref() == &Any::Null {\n                                    asm.attrs.remove(key);\n                                } else {\n                                    asm.attrs.insert(key.clone(), *value.clone());\n                                }\n                                if asm.action == Some(Action::Retain) {\n                                    asm.add_op();\n                                }", "C11.e")
mut("c13e-restore-shortcut", "C13", S, "        self.write_blocks_to(&snapshot.state_map, encoder);\n        snapshot.delete_set.encode(encoder);\n",
    "        if snapshot.state_map == self.blocks.get_state_vector() {\n            self.encode_diff(&StateVector::default(), encoder);\n            return Ok(());\n        }\n        self.write_blocks_to(&snapshot.state_map, encoder);\n        snapshot.delete_set.encode(encoder);\n", "C13.e")
mut("c13e-benign-early-return-same-writers", "C13", S, "        self.write_blocks_to(&snapshot.state_map, encoder);\n        snapshot.delete_set.encode(encoder);\n\n        Ok(())",
    "        let sm = &snapshot.state_map;\n        self.write_blocks_to(sm, encoder);\n        snapshot.delete_set.encode(encoder);\n        return Ok(());", "", kind="benign", also=["C06", "C09"])
mut("c14d-can-forward-only-deleted", "C14", "yrs/src/block_iter.rs", "                return !item.is_countable() || item.is_deleted() || self.reached_end;", "                return item.is_deleted();", "C14.d")
mut("c14d-benign-reordered-disjuncts", "C14", "yrs/src/block_iter.rs", "                return !item.is_countable() || item.is_deleted() || self.reached_end;", "                return item.is_deleted() || !item.is_countable();", "", kind="benign")
mut("c16d-intersect-raw-push", "C16", "yrs/src/ids.rs", "                    if let Some(last) = result.last_mut() {\n                        if last.0.end == lo && last.1 == merged {\n                            last.0.end = hi;\n                        } else {\n                            result.push((lo..hi, merged));\n                        }\n                    } else {\n                        result.push((lo..hi, merged));\n                    }",
    "                    result.push((lo..hi, merged));", "C16.d")
mut("c16d-benign-use-helper", "C16", "yrs/src/ids.rs", "                    if let Some(last) = result.last_mut() {\n                        if last.0.end == lo && last.1 == merged {\n                            last.0.end = hi;\n                        } else {\n                            result.push((lo..hi, merged));\n                        }\n                    } else {\n                        result.push((lo..hi, merged));\n                    }",
    "                    push_coalesced(&mut result, lo..hi, merged);", "", kind="benign")
mut("c18e-vacant-only-with-data", "C18", "yrs/src/sync/awareness.rs", "                    let has_data = new.is_some();\n                    e.insert(ClientState::new(clock, now, new));\n                    if has_data {",
    "                    let has_data = new.is_some();\n                    if has_data {\n                        e.insert(ClientState::new(clock, now, new));", "C18.e")
mut("c19f-mask-copy-paste", "C19", "yffi/src/lib.rs", "        let cleanup_formatting = self.flags & Y_CLEANUP_FMT != 0;", "        let cleanup_formatting = self.flags & Y_SHOULD_LOAD != 0;", "C19.f")
mut("c20b-links-taken", "C20", S, "                if let Some(source) = links.clone() {", "                if let Some(source) = links.take() {", "C20.b")
# ---------------------------------------------------------------- R-PRED
mut("pred-is-missing-ignores-skips", "C02", BS, "        id.clock >= self.get_clock(&id.client) || self.skips.contains(id)", "        id.clock >= self.get_clock(&id.client)", "C02.p", also=["C01"])
mut("pred-is-visible-off-by-one", "C13", "yrs/src/state_vector.rs", "        self.state_map.get(&id.client) > id.clock && !self.delete_set.contains(id)", "        self.state_map.get(&id.client) >= id.clock && !self.delete_set.contains(id)", "C13.p", also=["C17"])
mut("pred-detect-conflict-no-right-left", "C01", B, "            (None, Some(right)) => right.left.is_some(), // !target.left && target.right.left !== null", "            (None, Some(_right)) => false,", "C01.p", also=["C04"])
mut("pred-benign-detect-conflict-if-chain", "C01", B, "        match (&self.left, &self.right) {\n            (None, None) => true,                        // !target.left && !target.right\n            (None, Some(right)) => right.left.is_some(), // !target.left && target.right.left !== null\n            (Some(left), _) => left.right != self.right, // target.left && target.left.right !== target.right\n        }",
    "        if let Some(left) = &self.left {\n            left.right != self.right\n        } else if let Some(right) = &self.right {\n            right.left.is_some()\n        } else {\n            true\n        }", "", kind="benign", also=["C04"])

# ---------------------------------------------------------------- rules added after the third seeded round
mut("c02h-frontier-overwritten", "C02", U, "                        *local_clock = (*local_clock).max(id.clock + len);", "                        *local_clock = id.clock + len;", "C02.h", also=["C01", "C06"])
mut("c02h-benign-named-next", "C02", U, "                        *local_clock = (*local_clock).max(id.clock + len);", "                        let next = id.clock + len;\n                        *local_clock = (*local_clock).max(next);", "", kind="benign", also=["C01", "C06"])
mut("c02g-quote-end-only-across-clients", "C02", U, "                        if start != end {", "                        if start.map(|id| id.client) != end.map(|id| id.client) {", "C02.g", also=["C20"])
mut("c08a-diff-empty-shortcut", "C08", "yrs/src/alt.rs", "    let update = Update::decode_v1(update)?;\n    let mut encoder = EncoderV1::new();\n    update.encode_diff(&sv, &mut encoder);",
    "    let update = Update::decode_v1(update)?;\n    if !update.extends(&sv) {\n        return Ok(Update::EMPTY_V1.to_vec());\n    }\n    let mut encoder = EncoderV1::new();\n    update.encode_diff(&sv, &mut encoder);", "C08.a")
mut("c09dict-wrong-counter", "C09", "yrs/src/id_map.rs", "                            visited_attr_names.insert(name, new_name_id);", "                            visited_attr_names.insert(name, new_attr_id);", "C09.dict")
mut("c15g-gc-run-merge", "C15", BS, "                    left.len = right.clock - left.clock + right.len;", "                    left.merge(right);", "C15.g")
mut("c15g-benign-named-extent", "C15", BS, "                    left.len = right.clock - left.clock + right.len;", "                    let gap = right.clock - left.clock;\n                    left.len = gap + right.len;", "", kind="benign")
mut("c16e-from-store-items-only", "C16", "yrs/src/id_set.rs", "                let block = block.as_ref();\n                if block.is_deleted() {\n                    let (start, end) = block.clock_range();\n                    deletes.insert(start..(end + 1));\n                }",
    "                let block = block.as_ref();\n                if let Some(item) = block.as_item() {\n                    if item.is_deleted() {\n                        let (start, end) = block.clock_range();\n                        deletes.insert(start..(end + 1));\n                    }\n                }", "C16.e", also=["C07", "C13"])
mut("c17e-walker-no-root-stop", "C17", "yrs/src/types/xml.rs", "                                } else if current.parent == self.root {\n                                    n = None;\n                                } else {", "                                } else {", "C17.e")
mut("c19g-empty-attrs-plain-insert", "C19", "yffi/src/lib.rs", "        if let Some(attrs) = map_attrs(attrs.read().into()) {\n            txt.insert_with_attributes(txn, index, chunk, attrs)\n        } else {\n            panic!(\"ytext_insert: passed attributes are not of map type\")\n        }",
    "        match map_attrs(attrs.read().into()) {\n            Some(attrs) if attrs.is_empty() => txt.insert(txn, index, chunk),\n            Some(attrs) => txt.insert_with_attributes(txn, index, chunk, attrs),\n            None => panic!(\"ytext_insert: passed attributes are not of map type\"),\n        }", "C19.g")
mut("pred-has-added-by-clock", "C11", T, "    pub(crate) fn has_added(&self, id: &ID) -> bool {\n        self.insert_set.contains(id)", "    pub(crate) fn has_added(&self, id: &ID) -> bool {\n        id.clock >= self.before_state().get(&id.client)", "C11.p")
mut("lookup-search-end-exclusive", "C04", BS, "                    if clock <= end {\n                        return Some(mid);", "                    if clock < end {\n                        return Some(mid);", "lookup")
mut("lookup-clean-end-off-by-one", "C04", BS, "        let offset = id.clock - block_id.clock;\n        Some(ItemSlice::new(ptr, 0, offset))", "        let offset = id.clock - block_id.clock;\n        Some(ItemSlice::new(ptr, 0, offset + 1))", "lookup", also=["C01", "C12"])
mut("lookup-benign-clean-start-named", "C04", BS, "        let offset = id.clock - ptr.id().clock;\n        Some(ItemSlice::new(ptr, offset, ptr.len() - 1))", "        let start = id.clock - ptr.id().clock;\n        let last = ptr.len() - 1;\n        Some(ItemSlice::new(ptr, start, last))", "", kind="benign", also=["C01", "C12"])
mut("c11f-updated-without-deleted-prev", "C11", "yrs/src/types/mod.rs", "                        if let Some(prev) = prev.as_deref() {\n                            if txn.has_deleted(&prev.id) {\n                                let old_value = prev.content.get_last().unwrap_or_default();\n                                keys.insert(\n                                    key.clone(),\n                                    EntryChange::Updated(old_value, new_value),",
    "                        if let Some(prev) = prev.as_deref() {\n                            if !prev.is_deleted() || txn.has_deleted(&prev.id) {\n                                let old_value = prev.content.get_last().unwrap_or_default();\n                                keys.insert(\n                                    key.clone(),\n                                    EntryChange::Updated(old_value, new_value),", "C11.f")
mut("c11g-removed-also-for-added", "C11", "yrs/src/types/mod.rs", "                if txn.has_deleted(&item.id) && !txn.has_added(&item.id) {", "                if txn.has_deleted(&item.id) {", "C11.g")
mut("c11g-benign-named-flags", "C11", "yrs/src/types/mod.rs", "                if txn.has_deleted(&item.id) && !txn.has_added(&item.id) {", "                let gone = txn.has_deleted(&item.id);\n                let fresh = txn.has_added(&item.id);\n                if gone && !fresh {", "", kind="benign")
mut("split-deleted-keeps-full-len", "C03", B, "                let right = ItemContent::Deleted(*len - offset as u32);\n                *len = offset as u32;", "                let right = ItemContent::Deleted(*len - offset as u32);", "splice", also=["C04"])
mut("split-any-returns-left", "C03", B, "                *self = ItemContent::Any(left);\n                Some(ItemContent::Any(right))", "                *self = ItemContent::Any(right);\n                Some(ItemContent::Any(left))", "splice", also=["C04"])

# ---------------------------------------------------------------- rules added during the fifth seeded round
IDS = "yrs/src/ids.rs"
mut("c16f-exclude-empty-prefix", "C16", IDS, "                if other_range.start > start {\n                    result.push((start..other_range.start, value.clone()));",
    "                if other_range.start >= start {\n                    result.push((start..other_range.start, value.clone()));", "C16.f")
mut("c16f-intersect-empty-overlap", "C16", IDS, "                if lo < hi {\n                    let mut merged = value.clone();", "                if lo <= hi {\n                    let mut merged = value.clone();", "C16.f")
mut("c16f-remove-split-empty-right", "C16", IDS, "        if self.0[i].0.start < range.start && self.0[i].0.end > range.end {", "        if self.0[i].0.start < range.start && self.0[i].0.end >= range.end {", "C16.f")
mut("c16f-push-coalesced-unguarded", "C16", IDS, "    if range.start >= range.end {\n        return;\n    }\n    if let Some(last) = vec.last_mut() {", "    if let Some(last) = vec.last_mut() {", "C16.f")
mut("c16f-benign-flipped-comparison", "C16", IDS, "                if other_range.start > start {\n                    result.push((start..other_range.start, value.clone()));",
    "                if start < other_range.start {\n                    result.push((start..other_range.start, value.clone()));", "", kind="benign")
mut("c16f-benign-tail-guard-negated", "C16", IDS, "            if start < end {\n                result.push((start..end, value.clone()));\n            }", "            if !(start >= end) {\n                result.push((start..end, value.clone()));\n            }", "", kind="benign")
UN = "yrs/src/undo.rs"
mut("scan-undo-stack-only-top", "C12", UN, "        for item in self.0.iter() {\n            if item.deletions.contains(id) {\n                return true;\n            }\n        }\n        false",
    "        match self.0.last() {\n            Some(item) => item.deletions.contains(id),\n            None => false,\n        }", "C12.i")
mut("scan-undo-stack-skip-first", "C12", UN, "        for item in self.0.iter() {\n            if item.deletions.contains(id) {", "        for item in self.0.iter().skip(1) {\n            if item.deletions.contains(id) {", "C12.i")
mut("scan-benign-undo-stack-any", "C12", UN, "        for item in self.0.iter() {\n            if item.deletions.contains(id) {\n                return true;\n            }\n        }\n        false",
    "        self.0.iter().any(|item| item.deletions.contains(id))", "", kind="benign")
mut("scan-undo-stack-all", "C12", UN, "        for item in self.0.iter() {\n            if item.deletions.contains(id) {\n                return true;\n            }\n        }\n        false",
    "        self.0.iter().all(|item| item.deletions.contains(id))", "C12.i")
mut("scan-parent-single-hop", "C12", "yrs/src/branch.rs", "                if parent.deref() == self {\n                    return true;\n                }\n                ptr = parent.item;\n            } else {\n                break;\n            }\n        }\n        false",
    "                return parent.deref() == self;\n            } else {\n                break;\n            }\n        }\n        false", "C12.j")
mut("scan-scope-first-only", "C12", UN, "                if !item.is_deleted() && scope.iter().any(|b| b.is_parent_of(Some(item))) {", "                if !item.is_deleted() && scope.iter().take(1).any(|b| b.is_parent_of(Some(item))) {", "C12.k")
mut("scan-scope-all", "C12", UN, "                if !item.is_deleted() && scope.iter().any(|b| b.is_parent_of(Some(item))) {", "                if !item.is_deleted() && scope.iter().all(|b| b.is_parent_of(Some(item))) {", "C12.k")
mut("scan-subset-first-range", "C16", "yrs/src/id_set.rs", "        for (range, _) in self.iter() {\n            if !Self::is_range_covered(range, other) {\n                return false;\n            }\n        }\n        true",
    "        match self.iter().next() {\n            Some((range, _)) => Self::is_range_covered(range, other),\n            None => true,\n        }", "C16.g")
mut("scan-benign-subset-all", "C16", "yrs/src/id_set.rs", "        for (range, _) in self.iter() {\n            if !Self::is_range_covered(range, other) {\n                return false;\n            }\n        }\n        true",
    "        self.iter().all(|(range, _)| Self::is_range_covered(range, other))", "", kind="benign")
mut("mirror-merge-drain-tail-off-by-one", "C16", IDS, "                for i in ai..a.len() {\n                    push_coalesced(&mut result, a[i].0.clone(), a[i].1.clone());",
    "                for i in (ai + 1)..a.len() {\n                    push_coalesced(&mut result, a[i].0.clone(), a[i].1.clone());", "C16.h", also=["C08"])
mut("mirror-merge-advance-wrong-cursor", "C16", IDS, "            } else if b_end < a_end {\n                bi += 1;\n                b_cur = if bi < b.len() { b[bi].0.start } else { 0 };\n                a_cur = overlap_end;",
    "            } else if b_end < a_end {\n                bi += 1;\n                b_cur = if bi < b.len() { b[bi].0.start } else { 0 };\n                a_cur = overlap_start;", "C16.h")
mut("mirror-merge-no-overlap-strict", "C16", IDS, "            if b_end <= a_cur {\n                push_coalesced(&mut result, b_cur..b_end, b[bi].1.clone());", "            if b_end < a_cur {\n                push_coalesced(&mut result, b_cur..b_end, b[bi].1.clone());", "C16.h")
mut("mirror-benign-one-side-refactored", "C16", IDS, "                for i in ai..a.len() {\n                    push_coalesced(&mut result, a[i].0.clone(), a[i].1.clone());\n                }",
    "                for k in ai..a.len() {\n                    let e = &a[k];\n                    push_coalesced(&mut result, e.0.clone(), e.1.clone());\n                }", "", kind="benign", also=["C08"])
mut("count-continue-before-first-write", "C13", S, "        for (client, clock) in diff {\n            let blocks = self.blocks.get_client(&client).unwrap();\n            let clock = clock.min(blocks.clock() + 1);",
    "        for (client, clock) in diff {\n            if clock == 0 {\n                continue;\n            }\n            let blocks = self.blocks.get_client(&client).unwrap();\n            let clock = clock.min(blocks.clock() + 1);", "C13.d.count", also=["C06"])
mut("stash-latest-compared-with-missing", "C02", U, "                            Some((latest_client, blocks)) if *latest_client == client => {", "                            Some((latest_client, blocks)) if latest_client == missing => {", "C02.b3", also=["C04"])
mut("sv-hole-at-zero-not-lowered", "C06", BS, "            if let Some(clock) = ranges.clock_start() {\n                map.insert(*client, clock);\n            }", "            let clock = ranges.clock_start().unwrap_or_default();\n            if clock > 0 {\n                map.insert(*client, clock);\n            }", "C06.e", also=["C02", "C18"])
mut("sv-hole-end-advertised", "C18", BS, "            if let Some(clock) = ranges.clock_start() {", "            if let Some(clock) = ranges.clock_end() {", "state-vector", also=["C06"])
mut("known-state-ignores-holes", "C01", BS, "                if let Some(skips) = self.skips.get(client) {\n                    for (skip, _) in skips.iter() {", "                if let Some(skips) = self.skips.get(client) {\n                    for (skip, _) in skips.iter().take(1) {", "state-vector", kind="benign-skip")
mut("known-state-hole-len-off", "C01", BS, "                            skip.end - skip.start,\n", "                            skip.end - skip.start - 1,\n", "state-vector", also=["C02"])
mut("text-remove-skips-nested-types", "C03", "yrs/src/types/text.rs", "                ItemContent::Embed(_) | ItemContent::String(_) | ItemContent::Type(_) => {\n                    let content_len = item.content_len(encoding);\n                    let ptr = pos.right.unwrap();",
    "                ItemContent::Embed(_) | ItemContent::String(_) => {\n                    let content_len = item.content_len(encoding);\n                    let ptr = pos.right.unwrap();", "text-units")
mut("quote-string-skips-end-test-for-deleted", "C20", "yrs/src/types/weak.rs", "            if !item.is_deleted() {\n                if let ItemContent::String(s) = &item.content {\n                    result.push_str(s.as_str());\n                }\n            }\n            if let Some(end) = end {",
    "            if item.is_deleted() {\n                curr = item.right;\n                continue;\n            }\n            if let ItemContent::String(s) = &item.content {\n                result.push_str(s.as_str());\n            }\n            if let Some(end) = end {", "C20.i")
mut("quote-xml-embed-no-end-test", "C20", "yrs/src/types/text.rs", "                        if let Some(end) = end {\n                            if item.contains(end) {\n                                // we reached the end of range\n                                break 'LOOP;\n                            }\n                        }\n", "", "C20.j")
mut("quote-xml-embed-before-start", "C20", "yrs/src/types/text.rs", "                        if start_offset >= 0 {\n                            self.pack_str();\n                            if let Some(value) = item.content.get_first() {", "                        if true {\n                            self.pack_str();\n                            if let Some(value) = item.content.get_first() {", "C20.j")
mut("quote-xml-benign-started-flag-form", "C20", "yrs/src/types/text.rs", "                        if start_offset >= 0 {\n                            self.pack_str();\n                            if let Some(value) = item.content.get_first() {", "                        if !(start_offset < 0) {\n                            self.pack_str();\n                            if let Some(value) = item.content.get_first() {", "", kind="benign")
mut("anchor-head-shortcut-from-id", "C14", "yrs/src/sticky_index.rs", "            index -= 1;\n        }\n\n        let mut walker = BlockIter::new(branch);",
    "            index -= 1;\n        } else if index == 0 {\n            if let Some(first) = branch.start {\n                return Some(Self::from_id(*first.id(), assoc));\n            }\n        }\n\n        let mut walker = BlockIter::new(branch);", "C14.c")
mut("siblings-back-tests-neighbour", "C17", "yrs/src/types/xml.rs", "        while let Some(item) = self.current.as_deref() {\n            self.current = item.left;\n            if let Some(left) = self.current.as_deref() {\n                if !left.is_deleted() {",
    "        while let Some(item) = self.current {\n            self.current = item.left;\n            if let Some(left) = self.current.as_deref() {\n                if !item.is_deleted() {", "C17.b")
mut("attr-union-by-value-only", "C16", "yrs/src/id_map.rs", "            if !self.0.contains(attr) {\n                self.0.push(attr.clone());", "            if !self.0.iter().any(|a| a.value() == attr.value()) {\n                self.0.push(attr.clone());", "C16.i")
mut("attr-union-benign-any-eq", "C16", "yrs/src/id_map.rs", "            if !self.0.contains(attr) {\n                self.0.push(attr.clone());", "            if !self.0.iter().any(|a| a == attr) {\n                self.0.push(attr.clone());", "", kind="benign")
mut("same-item-offset-tests-anchor", "C14", "yrs/src/sticky_index.rs", "                                    if !item.is_deleted() && item.is_countable() {\n                                        index += item.content_len(encoding);",
    "                                    if !right.ptr.is_deleted() && item.is_countable() {\n                                        index += item.content_len(encoding);", "liveness", also=["C17"])
mut("scan-benign-undo-stack-find", "C12", UN, "        for item in self.0.iter() {\n            if item.deletions.contains(id) {\n                return true;\n            }\n        }\n        false",
    "        self.0.iter().find(|item| item.deletions.contains(id)).is_some()", "", kind="benign")
mut("c06d-remove-client-from-store", "C06", BS, "    pub fn is_empty(&self) -> bool {\n        self.clients.is_empty()\n    }", "    pub fn is_empty(&self) -> bool {\n        self.clients.is_empty()\n    }\n\n    pub fn forget(&mut self, client: &ClientID) {\n        self.clients.remove(client);\n    }", "C06.d")
AWF = "yrs/src/sync/awareness.rs"
mut("c18g-removal-keeps-clock", "C18", AWF, "                state.data = None;\n                state.clock += 1;\n                true", "                state.data = None;\n                true", "C18.g")
mut("c18g-update-skips-null-clock", "C18", AWF, "                let data = meta.data.clone().unwrap_or_else(|| NULL_STR.into());\n                (meta.clock, data)", "                let data = meta.data.clone().unwrap_or_else(|| NULL_STR.into());\n                (meta.clock.saturating_sub(1), data)", "C18.g")
mut("c18g-update-includes-removed", "C18", AWF, "                if e.data.is_none() {\n                    None\n                } else {\n                    Some(*e.key())\n                }", "                Some(*e.key())", "C18.g")
mut("c18g-benign-named-entry", "C18", AWF, "            res.insert(client_id, AwarenessUpdateEntry { clock, json });", "            let entry = AwarenessUpdateEntry { clock, json };\n            res.insert(client_id, entry);", "", kind="benign")
mut("exclude-break-on-range-before-update", "C06", U, "                        if range.end <= clock_start {\n                            continue;\n                        }", "                        if range.end <= clock_start {\n                            break;\n                        }", "state-vector", also=["C08", "C01"])
mut("exclude-benign-break-past-update", "C06", U, "                        if range.start >= clock_end {\n                            continue;\n                        }", "                        if range.start >= clock_end {\n                            break;\n                        }", "", kind="benign", also=["C08", "C01"])
TM = "yrs/src/types/mod.rs"
mut("weak-flags-unbounded-from-is-root", "C09", TM, "        if !data.quote_start.is_relative() {\n            info |= WEAK_REF_FLAGS_START_UNBOUNDED;", "        if data.quote_start.is_root() {\n            info |= WEAK_REF_FLAGS_START_UNBOUNDED;", "weak-wire", also=["C20"])
mut("weak-flags-reader-nested-under-root", "C09", TM, "        let start_scope = if is_start_unbounded {\n            if is_parent_root {", "        let start_scope = if is_start_unbounded {\n            if !is_parent_root {", "weak-wire")
mut("weak-flags-benign-nested-or-root", "C09", TM, "        if !data.quote_start.is_relative() {\n            info |= WEAK_REF_FLAGS_START_UNBOUNDED;", "        let open_start = !data.quote_start.is_relative();\n        if open_start {\n            info |= WEAK_REF_FLAGS_START_UNBOUNDED;", "", kind="benign", also=["C20"])
mut("weak-flags-benign-root-or-nested", "C09", TM, "        if !data.quote_start.is_relative() {\n            info |= WEAK_REF_FLAGS_START_UNBOUNDED;", "        if data.quote_start.is_root() || data.quote_start.is_nested() {\n            info |= WEAK_REF_FLAGS_START_UNBOUNDED;", "", kind="benign")
# ---------------------------------------------------------------- rules added during the sixth seeded round
mut("c07b-delete-set-diffed", "C07", T, "        store.write_blocks_from(self.before_state(), encoder);\n        self.delete_set.encode(encoder);", "        store.write_blocks_from(self.before_state(), encoder);\n        self.delete_set.diff(&self.insert_set).encode(encoder);", "C07.b")
mut("c02c-pending-ds-only-with-pending", "C02", T, "    if let Some(pending) = store.pending.as_ref() {\n        merge.push_back(pending.update.encode_v1());\n    }\n    if let Some(pending_ds) = store.pending_ds.as_ref() {", "    if let Some(pending) = store.pending.as_ref() {\n        merge.push_back(pending.update.encode_v1());\n    } else if let Some(pending_ds) = store.pending_ds.as_ref() {", "C02.c", also=["C01"])
mut("identity-name-before-item", "C14", "yrs/src/sticky_index.rs", "        if let Some(ptr) = branch.item {\n            let id = ptr.id().clone();\n            Self::new(IndexScope::Nested(id), assoc)\n        } else if let Some(name) = &branch.name {\n            Self::new(IndexScope::Root(name.clone()), assoc)\n        } else {",
    "        if let Some(name) = &branch.name {\n            Self::new(IndexScope::Root(name.clone()), assoc)\n        } else if let Some(ptr) = branch.item {\n            let id = ptr.id().clone();\n            Self::new(IndexScope::Nested(id), assoc)\n        } else {", "identity")
mut("c19j-timeout-zero-dropped", "C19", "yffi/src/lib.rs", "        if options.capture_timeout_millis >= 0 {", "        if options.capture_timeout_millis > 0 {", "C19.j")
mut("c19j-benign-not-negative", "C19", "yffi/src/lib.rs", "        if options.capture_timeout_millis >= 0 {", "        if !(options.capture_timeout_millis < 0) {", "", kind="benign")
mut("format-replaced-unrecorded-past-range", "C03", "yrs/src/types/text.rs", "                        if v == value.as_ref() {\n                            negated_attrs.remove(key);\n                        } else {\n                            negated_attrs.insert(key.clone(), *value.clone());\n                        }", "                        if v == value.as_ref() {\n                            negated_attrs.remove(key);\n                        } else if len > 0 {\n                            negated_attrs.insert(key.clone(), *value.clone());\n                        }", "text-units")
mut("gap-state-shared-between-gaps", "C11", T, "        let mut attrs = HashSet::new();\n        // iterate back until a content item is found", "        let attrs = &mut self.cleanups_seen;\n        // iterate back until a content item is found", None, kind="benign-skip")
mut("flags-clear-keep-clears-countable", "C04", B, "    pub fn clear_keep(&mut self) {\n        self.clear(ITEM_FLAG_KEEP)", "    pub fn clear_keep(&mut self) {\n        self.clear(ITEM_FLAG_COUNTABLE)", ".flags")
mut("string-column-counts-chars", "C13", "yrs/src/updates/encoder.rs", "        let utf16_len = str.encode_utf16().count(); // Yjs encodes offsets using utf-16", "        let utf16_len = str.chars().count();", "block-wire", also=["C09"])
mut("c18g-reset-after-removal-keeps-clock", "C18", AWF, "                state.last_updated = now;\n                state.clock += 1;\n                state.data.replace(json.clone())", "                state.last_updated = now;\n                let prev = state.data.replace(json.clone());\n                if prev.is_some() {\n                    state.clock += 1;\n                }\n                prev", "C18.g")
# ---------------------------------------------------------------- benign refactors for the rules of rounds 5 and 6
mut("benign-format-replaced-match", "C03", "yrs/src/types/text.rs", "                        if v == value.as_ref() {\n                            negated_attrs.remove(key);\n                        } else {\n                            negated_attrs.insert(key.clone(), *value.clone());\n                        }",
    "                        let same = v == value.as_ref();\n                        match same {\n                            true => {\n                                negated_attrs.remove(key);\n                            }\n                            false => {\n                                negated_attrs.insert(key.clone(), *value.clone());\n                            }\n                        }", "", kind="benign")
mut("benign-gap-state-with-capacity", "C11", T, "        let mut attrs = HashSet::new();\n        // iterate back until a content item is found", "        let mut attrs = HashSet::with_capacity(4);\n        // iterate back until a content item is found", "", kind="benign", also=["C06"])
mut("benign-string-column-named-count", "C13", "yrs/src/updates/encoder.rs", "        let utf16_len = str.encode_utf16().count(); // Yjs encodes offsets using utf-16", "        let units = str.encode_utf16();\n        let utf16_len = units.count();", "", kind="benign", also=["C09"])
mut("benign-identity-match-on-item", "C14", "yrs/src/sticky_index.rs", "        if let Some(ptr) = branch.item {\n            let id = ptr.id().clone();\n            Self::new(IndexScope::Nested(id), assoc)\n        } else if let Some(name) = &branch.name {\n            Self::new(IndexScope::Root(name.clone()), assoc)\n        } else {\n            unreachable!()\n        }",
    "        match branch.item {\n            Some(ptr) => {\n                let id = ptr.id().clone();\n                Self::new(IndexScope::Nested(id), assoc)\n            }\n            None => match &branch.name {\n                Some(name) => Self::new(IndexScope::Root(name.clone()), assoc),\n                None => unreachable!(),\n            },\n        }", "", kind="benign", also=["C09"])
mut("benign-encode-update-bound-set", "C07", T, "        store.write_blocks_from(self.before_state(), encoder);\n        self.delete_set.encode(encoder);", "        store.write_blocks_from(self.before_state(), encoder);\n        let ds = &self.delete_set;\n        ds.encode(encoder);", "", kind="benign")
mut("benign-merge-pending-named", "C02", T, "    if let Some(pending_ds) = store.pending_ds.as_ref() {\n        let mut u = Update::new();\n        u.delete_set = pending_ds.clone();\n        merge.push_back(u.encode_v1());\n    }", "    if let Some(pending_ds) = store.pending_ds.as_ref() {\n        let mut u = Update::new();\n        u.delete_set = pending_ds.clone();\n        let bytes = u.encode_v1();\n        merge.push_back(bytes);\n    }", "", kind="benign", also=["C01", "C06"])
mut("benign-known-state-named-len", "C01", BS, "                        known_state.remove_range(&BlockRange::new(\n                            ID::new(*client, skip.start),\n                            skip.end - skip.start,\n                        ));", "                        let hole = BlockRange::new(ID::new(*client, skip.start), skip.end - skip.start);\n                        known_state.remove_range(&hole);", "", kind="benign", also=["C02"])
mut("benign-state-vector-match", "C06", BS, "            if let Some(clock) = ranges.clock_start() {\n                map.insert(*client, clock);\n            }", "            match ranges.clock_start() {\n                Some(clock) => {\n                    map.insert(*client, clock);\n                }\n                None => {}\n            }", "", kind="benign", also=["C02", "C18"])
mut("benign-flags-clear-keep-const-alias", "C04", B, "    pub fn clear_keep(&mut self) {\n        self.clear(ITEM_FLAG_KEEP)", "    pub fn clear_keep(&mut self) {\n        let mask = ITEM_FLAG_KEEP;\n        self.clear(mask)", "", kind="benign")
mut("benign-awareness-bump-named", "C18", AWF, "                state.data = None;\n                state.clock += 1;\n                true", "                state.data = None;\n                let next = state.clock + 1;\n                state.clock = next;\n                true", "", kind="benign")
mut("benign-text-remove-arm-order", "C03", "yrs/src/types/text.rs", "                ItemContent::Embed(_) | ItemContent::String(_) | ItemContent::Type(_) => {\n                    let content_len = item.content_len(encoding);\n                    let ptr = pos.right.unwrap();", "                ItemContent::Type(_) | ItemContent::String(_) | ItemContent::Embed(_) => {\n                    let content_len = item.content_len(encoding);\n                    let ptr = pos.right.unwrap();", "", kind="benign")
mut("benign-siblings-back-named-flag", "C17", "yrs/src/types/xml.rs", "            if let Some(left) = self.current.as_deref() {\n                if !left.is_deleted() {\n                    if let ItemContent::Type(inner) = &left.content {", "            if let Some(left) = self.current.as_deref() {\n                let gone = left.is_deleted();\n                if !gone {\n                    if let ItemContent::Type(inner) = &left.content {", "", kind="benign")
# ---------------------------------------------------------------- rules added during the seventh seeded round
mut("splice-gc-becomes-skip", "C08", B, "            Block::Skip(x) => {\n                if offset == 0 {\n                    None\n                } else {\n                    Some(Block::Skip(x.slice(offset)))\n                }\n            }\n            Block::GC(x) => {\n                if offset == 0 {\n                    None\n                } else {\n                    Some(Block::GC(x.slice(offset)))\n                }\n            }",
    "            Block::Skip(x) | Block::GC(x) => {\n                if offset == 0 {\n                    None\n                } else {\n                    Some(Block::Skip(x.slice(offset)))\n                }\n            }", "merge", also=["C06"])
mut("clock-range-skip-exclusive-end", "C14", B, "            Block::GC(r) | Block::Skip(r) => (r.clock, r.clock + r.len - 1),", "            Block::GC(r) => (r.clock, r.clock + r.len - 1),\n            Block::Skip(r) => (r.clock, r.clock + r.len),", "lookup")
mut("clock-range-benign-named", "C14", B, "            Block::GC(r) | Block::Skip(r) => (r.clock, r.clock + r.len - 1),", "            Block::GC(r) | Block::Skip(r) => {\n                let last = r.clock + r.len - 1;\n                (r.clock, last)\n            }", "", kind="benign")
mut("find-start-open-loop", "C16", IDS, "        while left <= right {\n            let mid = (left + right) / 2;\n            let range = &self.0[mid].0;", "        while left < right {\n            let mid = (left + right) / 2;\n            let range = &self.0[mid].0;", "lookup")
mut("clock-start-of-last-range", "C18", IDS, "        let r = self.0.first()?;\n        Some(r.0.start)", "        let r = self.0.last()?;\n        Some(r.0.start)", "state-vector", also=["C06"])
mut("picker-stops-on-absent-queue", "C02", U, "                    self.latest = self.store.clients.remove_entry(&next);", "                    let entry = self.store.clients.remove_entry(&next)?;\n                    self.latest = Some(entry);", "C02.b4")
mut("options-encoding-as-number", "C09", "yrs/src/doc.rs", "        m.insert(\"encoding\".to_owned(), Any::BigInt(encoding));", "        m.insert(\"encoding\".to_owned(), Any::from(encoding));", "block-wire")
mut("text-push-at-block-length", "C03", "yrs/src/types/text.rs", "        let idx = self.len(txn);\n        self.insert(txn, idx, chunk)", "        let idx = self.as_ref().len();\n        self.insert(txn, idx, chunk)", "text-units")
mut("visited-shared-between-changed-types", "C11", T, "                        &mut HashSet::default(),", "                        &mut visited,", None, kind="benign-skip")
mut("blocks-cursor-jumps-two", "C12", "yrs/src/id_set.rs", "                    self.current_index = Some(idx + 1);\n                    block", "                    self.current_index = Some(idx + 2);\n                    block", "delete-set")
mut("blocks-cursor-benign-named", "C12", "yrs/src/id_set.rs", "                    self.current_index = Some(idx + 1);\n                    block", "                    let following = idx + 1;\n                    self.current_index = Some(following);\n                    block", "", kind="benign")
mut("gc-scope-tests-block-start", "C13", "yrs/src/gc.rs", "                            start += len;\n                            if start > delete_item.end {\n                                break;\n                            } else {", "                            if start >= delete_item.end {\n                                break;\n                            } else {\n                                start += len;", "gc-scope", also=["C15"])
mut("gc-scope-benign-named-end", "C13", "yrs/src/gc.rs", "                            start += len;\n                            if start > delete_item.end {", "                            start += len;\n                            let limit = delete_item.end;\n                            if start > limit {", "", kind="benign", also=["C15"])
SL = "yrs/src/slice.rs"
mut("ident-itemslice-len-off-by-one", "C04", SL, "        self.end - self.start + 1\n", "        self.end - self.start\n", "lookup")
mut("ident-blockslice-clock-end-exclusive", "C04", SL, "            BlockSlice::GC(s) | BlockSlice::Skip(s) => s.clock + s.len - 1,", "            BlockSlice::GC(s) | BlockSlice::Skip(s) => s.clock + s.len,", "lookup")
mut("ident-blockrange-slice-keeps-len", "C04", B, "        next.clock += offset;\n        next.len -= offset;\n        next", "        next.clock += offset;\n        next", "lookup")
mut("ident-benign-blockslice-separate-arms", "C04", SL, "            BlockSlice::GC(s) | BlockSlice::Skip(s) => s.clock + s.len - 1,", "            BlockSlice::GC(s) => s.clock + s.len - 1,\n            BlockSlice::Skip(s) => s.clock + s.len - 1,", "", kind="benign")
mut("ident-benign-itemslice-len-named", "C04", SL, "        self.end - self.start + 1\n", "        let span = self.end - self.start;\n        1 + span\n", "", kind="benign")
mut("sv-set-min-takes-max", "C02", "yrs/src/state_vector.rs", "                *value = (*value).min(clock);", "                *value = (*value).max(clock);", "C02.b5")
