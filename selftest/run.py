#!/usr/bin/env python3
"""Development gate (not a registered check): applies every entry of mutations.py to a scratch worktree of /repo,
runs the affected checks against it (YLINT_REPO) and compares the outcome with the expectation.
usage: run.py [id-substring ...]"""
import json
import os
import subprocess
import sys
import time

HERE = os.path.dirname(os.path.abspath(__file__))
VERIF = os.path.dirname(HERE)
sys.path.insert(0, HERE)
from mutations import M  # noqa: E402

WT = os.environ.get("SELFTEST_WT", "/tmp/selftest_wt")


def sh(*a, **kw):
    return subprocess.run(a, stdout=subprocess.PIPE, stderr=subprocess.STDOUT, **kw)


def main():
    filt = sys.argv[1:]
    if not os.path.isdir(WT):
        r = sh("git", "-C", "/repo", "worktree", "add", "--detach", WT, "HEAD")
        if r.returncode != 0:
            print(r.stdout.decode())
            sys.exit(2)
    sh("git", "-C", WT, "checkout", "--detach", subprocess.check_output(["git", "-C", "/repo", "rev-parse", "HEAD"]).decode().strip())
    sh("git", "-C", WT, "checkout", "--", ".")
    results = []
    env = dict(os.environ, YLINT_REPO=WT)
    for m in M:
        if m["kind"] not in ("mutation", "benign") or m["old"] is None:
            continue
        if filt and not any(f in m["id"] for f in filt):
            continue
        path = os.path.join(WT, m["file"])
        src = open(path).read()
        n = src.count(m["old"])
        if n != 1:
            results.append((m["id"], m["kind"], "STALE", "pattern occurs %d times in %s" % (n, m["file"])))
            print(results[-1])
            continue
        open(path, "w").write(src.replace(m["old"], m["new"]))
        t0 = time.time()
        props = [m["prop"]] + [p for p in m["also"] if p != m["prop"]]
        outcome, detail = "OK", ""
        for p in props:
            r = sh("python3", os.path.join(VERIF, "check.py"), p, env=env, cwd=VERIF)
            out = r.stdout.decode(errors="replace")
            if "cargo check failed" in out:
                outcome, detail = "NOCOMPILE", out[-400:]
                break
            viol = [l for l in out.splitlines() if l.strip().startswith("violation ")]
            if m["kind"] == "mutation":
                if p == m["prop"]:
                    hit = [l for l in viol if m["expect"] in l]
                    if r.returncode != 1 or not hit:
                        outcome, detail = "MISSED", "exit=%d; violations: %s" % (r.returncode, [l[:160] for l in viol][:3])
                    else:
                        detail = hit[0].strip()[:200]
            else:
                if r.returncode != 0:
                    outcome, detail = "FALSE-ALARM", "%s exit=%d: %s" % (p, r.returncode, [l[:200] for l in viol][:3])
                    break
        sh("git", "-C", WT, "checkout", "--", ".")
        results.append((m["id"], m["kind"], outcome, detail))
        print("%-40s %-9s %-11s %5.1fs %s" % (m["id"], m["kind"], outcome, time.time() - t0, detail[:150]), flush=True)
    # evidence files were rewritten against the scratch copy: restore them from the real tree for the props touched
    bad = [r for r in results if r[2] not in ("OK",)]
    if filt:
        # a filtered run merges its rows into the existing table instead of replacing it
        keep = []
        done = {r[0] for r in results}
        try:
            for l in open(os.path.join(HERE, "RESULTS.md")):
                if l.startswith("| ") and not l.startswith("| id |"):
                    c = [x.strip() for x in l.strip().strip("|").split("|")]
                    if c[0] not in done and len(c) >= 3:
                        keep.append((c[0], c[1], c[2], c[3] if len(c) > 3 else ""))
        except OSError:
            pass
        results = keep + results
        bad = [r for r in results if r[2] not in ("OK",)]
    with open(os.path.join(HERE, "RESULTS.md"), "w") as f:
        f.write("# selftest results (%s)\n\n%d entries, %d not OK\n\n| id | kind | outcome | detail |\n|---|---|---|---|\n" %
                (time.strftime("%Y-%m-%d %H:%M"), len(results), len(bad)))
        for r in results:
            f.write("| %s | %s | %s | %s |\n" % (r[0], r[1], r[2], r[3].replace("|", "/")[:220]))
    print("%d entries, %d not OK" % (len(results), len(bad)))
    sys.exit(1 if [r for r in bad if not filt or any(f in r[0] for f in filt)] else 0)


if __name__ == "__main__":
    main()
