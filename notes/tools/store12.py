import json, os, subprocess, shutil, sys
V="/verif/seeded"
FFI=("C17","C20")
def RAN(w):
    if w in FFI:
        c="/tmp/confirm_ffi.sh /tmp/seed12_%s (yffi builds only as staticlib/cdylib, so the demonstration is a #[cfg(test)] module spliced into yffi/src/lib.rs for the run and removed afterwards): build ok; `cargo test --offline -p yffi <demo filter>` fails with the patch and passes without it; cargo test --offline -p yrs --features weak --lib: 396 passed, only the emptied-asset test (test_medium_data_set) fails as on the unchanged tree. Worktrees were created from /repo ac75050"%w
    else:
        c="/tmp/confirm_seed.sh /tmp/seed12_%s: build ok; demo with patch exit non-zero; cargo test --offline -p yrs --features weak --lib: 396 passed, only the emptied-asset test (test_medium_data_set) fails as on the unchanged tree (known-flaky tests that failed once in a loaded full run were repeated alone, RETEST.txt where present); demo without patch exit 0. Worktrees were created from /repo ac75050"%w
    return [c, "YLINT_REPO=/tmp/seed12_%s python3 check.py <all 20> --tier quick with the rules as committed before this round's strengthening (commit 08785be 'DESIGN/MANIFEST: post-round-11 clauses'; FIRST_RUN_CHECKS.txt)"%w]
S=[
("C09","C09l-sv-from-update-v2-encodes-v1","C09: encode_state_vector_from_update_v2 ends with encode_v1() instead of encode_v2(): the helper still decodes its input as v2 and answers Ok, but the bytes are a v1 state vector — StateVector::decode_v2 of the helper's own output fails for every input",
 "the document-free v2 helper, its output consumed as v2 (StateVector::decode_v2, diff_updates_v2)",
 ["C09.m.version-pairing.0|yrs::alt::encode_state_vector_from_update_v2|version-purity","C08.a (same rule, fired at first run)"],
 "caught at first run by other properties' checks only (C08.a version purity, directly and through the merge mechanism of C01/C02/C05/C06/C18). C09 now depends on a new one-rule mechanism `version-pairing` (C08.a)"),
("C10","C10l-any-map-infallible-reserve","C10: the Map branch of Any::decode pre-sizes its table with HashMap::with_capacity(len) instead of try_reserve(len)?: len is a var-uint straight from the wire, a count of 2^61 or more panics with a capacity overflow, smaller huge counts allocate far beyond the input",
 "an Any of kind map (tag 118) with an extreme entry count, raw or inside a ContentAny / Embed / Format of a v1 or v2 update",
 ["C10.alloc|yrs::any::Any::decode|alloc:HashMap::with_capacity#0"],
 "caught at first run by the own check for the right reason (C10.alloc: capacity from the wire with no bound)"),
("C12","C12l-content-clone-embed-as-any","C12: ItemContent::clone — whose only caller is ItemPtr::redo — copies an Embed as Any(vec![value]): same length and index, but the text readers do not render Any content, so undoing the deletion of an embed (or redoing its insertion) restores a text without it, on every replica",
 "a tracked Text / XmlText holding a plain embedded value, a history that re-creates it through redo, a reader of structured content (diff, delta, events)",
 ["C12.m.content.3|<yrs::block::ItemContent as std::clone::Clone>::clone|copy:Any","C12.m.content.3|...|all-kinds"],
 "initially MISSED. Rule accessors.kind_preserving added (content mechanism, which C12 now depends on): every construction in ItemContent::clone is reached only for an original of the same kind, and every kind is constructed"),
("C14","C14l-clientid-deserialize-u32","C14: the serde Deserialize of ClientID reads a u32 while Serialize writes the full 53-bit value: the JSON form of a Relative / Nested sticky index whose id has client >= 2^32 serialises and then fails to deserialise — the cursor does not survive JSON",
 "an anchoring element (or nested collection) created by a replica with client id >= 2^32 (most ids Doc::new() draws), the index travelling as serde JSON",
 ["C14.i|<yrs::block::ClientID as yrs::block::_::_serde::Deserialize>::deserialize|width"],
 "initially MISSED. Rule C14.i added: ClientID's Serialize writes ClientID::get(self) through the impl of one scalar type, Deserialize reads through the impl of the SAME type and hands the value to ClientID::new as read"),
("C15","C15l-hook-get-ignores-deleted","C15: Hook::get lost its `item is deleted` test and answers Some for whatever get_branch resolves: a deleted nested collection still resolves until the collector has rewritten its block, so a GC-on replica answers None where a GC-off replica answers Some(emptied collection), and a forced gc flips the answer",
 "a deleted nested collection whose block the collector has not rewritten (skip_gc, kept by an UndoManager, or read inside the deleting transaction), read through a logical reference (SharedRef::hook → Hook::get)",
 ["C15.i|yrs::branch::Hook::get|deleted-test"],
 "initially MISSED. Rule C15.i added: the Some of Hook::get is built only where the branch has no item or Item::is_deleted answered false (edge reachability both ways)"),
("C16","C16l-intern-replaces-cached-handle","C16: IdMap::ensure_attrs interns with HashSet::replace instead of get-else-insert: the cache entry is overwritten by every value-equal attribute, later inserts are handed different handles, and the encoder — which de-duplicates by handle — writes equal maps differently depending on how their attributes were allocated",
 "an IdMap built with at least three inserts of separately allocated, value-equal attributes; a comparison of encoded bytes",
 ["C16.q|yrs::id_map::IdMap::ensure_attrs|cache-write:replace"],
 "initially MISSED. Rule C16.q added: ensure_attrs writes its cache only where HashSet::get(self.attrs, a) answered None, and does look the attribute up"),
("C17","C17l-ffi-xmltext-len-by-block-len","C17: yxmltext_len answers Branch::len() (the UTF-16 block length) instead of Text::len(txn) (the content length in the configured unit): under byte offsets the C length of an XmlText with non-ASCII content disagrees with the byte length of yxmltext_string and with the index range insert / remove accept",
 "a document with byte offsets (the default), a YXmlText read through the C API, at least one non-ASCII character",
 ["C17.q|yffi::yxmltext_len|len","C17.q|yffi::yxmltext_len|single-answer","C19.b (frozen delegation, fired at first run)"],
 "caught at first run by another property's check only (C19.b: frozen wrapper → API delegation). Rule C17.q added: the five C length readers answer with the length method of their type over the caller's own branch and transaction"),
("C18","C18l-step2-noop-fast-path","C18: Protocol::handle_sync_step2 returns early when the update does not extend the local state vector (Update::extends looks at blocks only) and otherwise delegates to handle_update: a SyncStep2 that carries only new deletions is dropped, the peers stay diverged after a complete handshake",
 "deletions-only divergence, or offline deletions plus an Update overtaking the SyncStep2 during the handshake; the synchronous Protocol",
 ["C18.a|yrs::sync::protocol::Protocol::handle_sync_step2|sibling:yrs::sync::protocol::AsyncProtocol::handle_sync_step2","C18.b|yrs::sync::protocol::Protocol::handle_sync_step2|applies"],
 "caught at first run by the own check for the right reason (C18.a sibling skeletons, C18.b the handler applies the received update on every path)"),
("C19","C19l-ffi-undo-meta-read-before-callback","C19: the closure of yundo_manager_observe_added reads event.meta before it invokes the C callback: what the callback assigns to event->meta is dropped, observe_popped later sees NULL where the Rust API hands the pointer back",
 "a C undo manager, an observe_added callback that assigns event->meta, a later undo / redo with an observe_popped callback reading it",
 ["C19.m|yffi::yundo_manager_observe_added|meta-after-callback"],
 "initially MISSED. Rule C19.m added: in both undo observers the read of YUndoEvent.meta that feeds Event::meta(e).store is strictly dominated by the indirect callback call"),
("C20","C20l-ffi-quote-excluded-start-as-next-index","C20: ytext_quote / yarray_quote rewrite an excluded start `(i..` as the included start `i+1..`: the same elements at quote time, but the quotation is anchored before element i+1 instead of after element i, so elements later inserted between the two are missing from the dereferenced range and from its observers",
 "a quotation created through the C API with start_exclusive != 0, then an insert exactly between the excluded boundary element and the first quoted one",
 ["C20.q|yffi::ytext_quote|quote","C20.q|yffi::yarray_quote|quote"],
 "initially MISSED. Rule C20.q added: the C quote wrappers build the range from the caller's own four parameters each in its slot, and ExplicitRange::start_bound / end_bound answer Unbounded / Included / Excluded under exactly the index / flag tests of their side"),
]
only=sys.argv[1:]
n=0
for w,sid,breaks,needs,caught,hist in S:
    if only and w not in only: continue
    wt="/tmp/seed12_%s"%w
    assert "== done" in open(wt+"/SEED/CONFIRM.txt").read(), w
    subprocess.check_call(["python3", V+"/store.py", wt, sid, w], stdout=subprocess.DEVNULL)
    dst=os.path.join(V,sid)
    for f in ("CHECKS.txt","RETEST.txt"):
        if os.path.exists(wt+"/SEED/"+f):
            shutil.copy(wt+"/SEED/"+f, dst+"/"+("FIRST_RUN_CHECKS.txt" if f=="CHECKS.txt" else f))
    json.dump({"id":sid,"property":w,"breaks":breaks,"needs_to_manifest":needs,"ran":RAN(w),"caught_by":caught,"history":hist}, open(dst+"/meta.json","w"), indent=1)
    n+=1
print("stored", n)
