#!/bin/bash
# usage: confirm_seed.sh <dir-suffix>   (worktree /tmp/seed_<suffix> with SEED/patch.diff and SEED/demo)
case "$1" in /*) W=$1;; *) W=/tmp/seed_$1;; esac
cd $W || exit 2
OUT=$W/SEED/CONFIRM.txt
: > $OUT
export CARGO_NET_OFFLINE=true
git checkout -q -- . 2>/dev/null
git status --short | grep -v "^??" >> $OUT
echo "== apply patch" >> $OUT
git apply SEED/patch.diff >> $OUT 2>&1 || { echo "PATCH DOES NOT APPLY" >> $OUT; exit 1; }
echo "== build with patch" >> $OUT
cargo build --offline -p yrs -p yffi 2>&1 | tail -2 >> $OUT
if [ -d SEED/demo ]; then
  cp Cargo.lock SEED/demo/Cargo.lock 2>/dev/null
  echo "== demo WITH patch" >> $OUT
  (cd SEED/demo && timeout 900 cargo run --offline 2>&1 | tail -8; echo "demo exit=${PIPESTATUS[0]}") >> $OUT
fi
echo "== unit tests WITH patch" >> $OUT
timeout 2400 cargo test --offline -p yrs --features weak --lib 2>&1 | grep -E "^test result|FAILED|failed" | head -8 >> $OUT
echo "== revert patch" >> $OUT
git apply -R SEED/patch.diff >> $OUT 2>&1
if [ -d SEED/demo ]; then
  echo "== demo WITHOUT patch" >> $OUT
  (cd SEED/demo && timeout 900 cargo run --offline 2>&1 | tail -5; echo "demo exit=${PIPESTATUS[0]}") >> $OUT
fi
git apply SEED/patch.diff
echo "== done" >> $OUT
