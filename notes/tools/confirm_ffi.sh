#!/bin/bash
# usage: confirm_ffi.sh <worktree> <filter> <mode: path|append>
W=$1; FIL=$2; MODE=$3
cd $W || exit 2
OUT=$W/SEED/CONFIRM.txt; : > $OUT
export CARGO_NET_OFFLINE=true
git checkout -q -- .
splice() {
  if [ "$MODE" = path ]; then printf '\n#[cfg(test)]\n#[path = "../../SEED/demo_test.rs"]\nmod seed_demo;\n' >> yffi/src/lib.rs; else cat SEED/demo_test.rs >> yffi/src/lib.rs; fi
}
echo "== apply patch" >> $OUT
git apply SEED/patch.diff >> $OUT 2>&1 || { echo "PATCH DOES NOT APPLY" >> $OUT; exit 1; }
echo "== build with patch" >> $OUT
cargo build --offline -p yrs -p yffi 2>&1 | tail -2 >> $OUT
splice
echo "== demo WITH patch (test module spliced into yffi/src/lib.rs)" >> $OUT
timeout 1500 cargo test --offline -p yffi $FIL 2>&1 | grep -E "^test |test result|panicked|left:|right:" | head -20 >> $OUT
git checkout -q -- .
git apply SEED/patch.diff
echo "== unit tests WITH patch" >> $OUT
timeout 2400 cargo test --offline -p yrs --features weak --lib 2>&1 | grep -E "^test result|FAILED|failed" | head -8 >> $OUT
git checkout -q -- .
splice
echo "== demo WITHOUT patch" >> $OUT
timeout 1500 cargo test --offline -p yffi $FIL 2>&1 | grep -E "^test |test result|panicked" | head -20 >> $OUT
git checkout -q -- .
git apply SEED/patch.diff
echo "== done" >> $OUT
