#!/bin/bash
# first-run checks with the rules as committed before this round's strengthening (/tmp/verif_head), then confirm
for d in "$@"; do
  [ -f $d/SEED/patch.diff ] || continue
  /tmp/run_all_on_head12.sh $d > $d/SEED/CHECKS.txt 2>&1
done
for d in "$@"; do
  [ -f $d/SEED/CONFIRM.txt ] && grep -q "== done" $d/SEED/CONFIRM.txt && continue
  /tmp/confirm_seed.sh $d > /dev/null 2>&1 &
done
wait
