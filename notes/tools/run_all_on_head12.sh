#!/bin/bash
# usage: run_all_on.sh <worktree> ; prints per property exit status and violation lines
WT=$1
cd /tmp/verif_head12
for p in C01 C02 C03 C04 C05 C06 C07 C08 C09 C10 C11 C12 C13 C14 C15 C16 C17 C18 C19 C20; do
  out=$(YLINT_REPO=$WT python3 check.py $p --tier quick 2>&1); rc=$?
  if [ $rc -ne 0 ]; then echo "== $p rc=$rc"; echo "$out" | grep -E "violation|VIOLATION" | head -8; fi
done
echo done
