use yrs::*;
fn main() {
    let doc = Doc::new();
    let f = doc.get_or_insert_xml_fragment("f");
    let m = doc.get_or_insert_map("m");
    let mut txn = yrs::Transact::transact_mut(&doc);
    let t = f.insert(&mut txn, 0, XmlTextPrelim::new(""));
    t.insert(&mut txn, 0, "a");
    t.insert_embed(&mut txn, 1, Any::from("E"));
    t.insert(&mut txn, 2, "bcd");
    t.insert_embed(&mut txn, 5, Any::from("F"));
    t.insert(&mut txn, 6, "gh");
    println!("full: {}", t.get_string(&txn));
    let mut fails = 0;
    for (r, exp) in [((2u32, 3u32), "bc"), ((1, 3), "Ebc"), ((2, 5), "bcdF"), ((1, 5), "EbcdF"), ((5, 5), "F"), ((0, 7), "aEbcdFgh"), ((5,6), "Fg"), ((4,5), "dF")] {
        let q = t.quote(&txn, r.0..=r.1).unwrap();
        let w = m.insert(&mut txn, format!("q{}{}", r.0, r.1), q);
        let got = w.get_string(&txn);
        println!("quote {}..={} expect {:?}: {:?} {}", r.0, r.1, exp, got, if got == exp { "ok" } else { fails += 1; "FAIL" });
        if r.1 + 1 <= 7 {
            let q = t.quote(&txn, r.0..(r.1 + 1)).unwrap();
            let w = m.insert(&mut txn, format!("x{}{}", r.0, r.1), q);
            let got = w.get_string(&txn);
            println!("quote {}..{} expect {:?}: {:?} {}", r.0, r.1 + 1, exp, got, if got == exp { "ok" } else { fails += 1; "FAIL" });
        }
    }
    std::process::exit(if fails > 0 { 1 } else { 0 });
}
