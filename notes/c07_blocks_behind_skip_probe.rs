use std::sync::{Arc, Mutex};
use yrs::updates::decoder::Decode;
use yrs::{Doc, GetString, ReadTxn, StateVector, Text, Transact, Update};

fn main() {
    // author: three independent transactions of one client, each into its own root text
    let a = Doc::with_client_id(1);
    let mut ups = Vec::new();
    for (name, s) in [("t1", "one"), ("t2", "two"), ("t3", "three")] {
        let t = a.get_or_insert_text(name);
        let sv = a.transact().state_vector();
        t.insert(&mut a.transact_mut(), 0, s);
        ups.push(a.transact().encode_diff_v1(&sv));
    }
    // emitter: receives u1, then u3 (gap: u2 missing), then u2
    let e = Doc::with_client_id(2);
    let follower = Doc::with_client_id(3);
    let emitted: Arc<Mutex<Vec<Vec<u8>>>> = Arc::new(Mutex::new(Vec::new()));
    let em = emitted.clone();
    let _sub = e.observe_update_v1(move |_, ev| em.lock().unwrap().push(ev.update.clone())).unwrap();
    let mut bad = 0;
    for (step, i) in [0usize, 2, 1].iter().enumerate() {
        e.transact_mut().apply_update(Update::decode_v1(&ups[*i]).unwrap()).unwrap();
        let evs: Vec<Vec<u8>> = emitted.lock().unwrap().drain(..).collect();
        println!("step {}: applied u{} -> {} event(s), sizes {:?}", step, i + 1, evs.len(), evs.iter().map(|x| x.len()).collect::<Vec<_>>());
        for u in evs {
            follower.transact_mut().apply_update(Update::decode_v1(&u).unwrap()).unwrap();
        }
        for name in ["t1", "t2", "t3"] {
            let x = e.get_or_insert_text(name).get_string(&e.transact());
            let y = follower.get_or_insert_text(name).get_string(&follower.transact());
            if x != y {
                println!("   MISMATCH after step {}: {} emitter={:?} follower={:?}", step, name, x, y);
                bad += 1;
            }
        }
        println!("   emitter sv {:?} missing={} ; follower sv {:?}", e.transact().state_vector(), e.transact().has_missing_updates(), follower.transact().state_vector());
    }
    // sync clause (C06): a peer that knows u1 asks a replica that holds u1 and u3 (gap at u2)
    let holder = Doc::with_client_id(4);
    holder.transact_mut().apply_update(Update::decode_v1(&ups[0]).unwrap()).unwrap();
    holder.transact_mut().apply_update(Update::decode_v1(&ups[2]).unwrap()).unwrap();
    let asker = Doc::with_client_id(5);
    asker.transact_mut().apply_update(Update::decode_v1(&ups[0]).unwrap()).unwrap();
    let sv = asker.transact().state_vector();
    let answer = holder.transact().encode_diff_v1(&sv);
    asker.transact_mut().apply_update(Update::decode_v1(&answer).unwrap()).unwrap();
    let x = holder.get_or_insert_text("t3").get_string(&holder.transact());
    let y = asker.get_or_insert_text("t3").get_string(&asker.transact());
    println!("sync: holder t3={:?} asker t3={:?} (answer {} bytes)", x, y, answer.len());
    if x != y {
        println!("   MISMATCH: the answer to the asker's state vector lacks what the holder integrated behind the gap");
        bad += 1;
    }
    let _ = StateVector::default();
    std::process::exit(if bad > 0 { 1 } else { 0 });
}
