import sys, importlib
sys.path.insert(0,'/verif')
import check
from ylib import report as Rm
prop=sys.argv[1]
d=check.ensure_facts(['default']); ctx=check.Ctx(d,'quick',['default'])
mod=importlib.import_module('rules.'+prop.lower())
R=Rm.Report(prop.upper(),'quick'); mod.check(ctx,R)
from rules import mechanisms; mechanisms.run(R, ctx, prop.upper())
for o in R.obs:
    print(('OK ' if o.ok else ('INV' if o.inventory else 'BAD')), o.rule, o.fn.split('::')[-1], o.site, '|', o.detail[:int(sys.argv[2]) if len(sys.argv)>2 else 220])
print(R.floors)
